//! vextract — reports byte spans of items and of the splice points inside them.
//!
//! usage: vextract <file.rs>...      → JSON on stdout
//!
//! The tool never prints source text re-generated from the AST: it only reports
//! byte ranges into the file it was given.  The Python side slices the original
//! text with those ranges, so what reaches the verifier is the text that rustc
//! compiles.  `pin_project! { … }` bodies are parsed as a struct declaration.

use proc_macro2::{Span, TokenStream};
use std::fmt::Write as _;
use syn::spanned::Spanned;
use syn::visit::Visit;

fn br(s: Span) -> (usize, usize) {
    let r = s.byte_range();
    (r.start, r.end)
}

fn js(s: &str) -> String {
    let mut o = String::with_capacity(s.len() + 2);
    o.push('"');
    for c in s.chars() {
        match c {
            '"' => o.push_str("\\\""),
            '\\' => o.push_str("\\\\"),
            '\n' => o.push_str("\\n"),
            '\t' => o.push_str("\\t"),
            '\r' => o.push_str("\\r"),
            c if (c as u32) < 0x20 => {
                let _ = write!(o, "\\u{:04x}", c as u32);
            }
            c => o.push(c),
        }
    }
    o.push('"');
    o
}

fn span_json(s: Span) -> String {
    let (a, b) = br(s);
    format!("[{},{}]", a, b)
}

fn compact(ts: TokenStream) -> String {
    ts.to_string().chars().filter(|c| !c.is_whitespace()).collect()
}

fn attrs_json(attrs: &[syn::Attribute]) -> String {
    let mut v = Vec::new();
    for a in attrs {
        let name = a.path().segments.last().map(|s| s.ident.to_string()).unwrap_or_default();
        let text = compact(a.meta.to_token_stream_());
        v.push(format!("{{\"name\":{},\"span\":{},\"text\":{}}}", js(&name), span_json(a.span()), js(&text)));
    }
    format!("[{}]", v.join(","))
}

trait ToTs {
    fn to_token_stream_(&self) -> TokenStream;
}
impl<T: quote::ToTokens> ToTs for T {
    fn to_token_stream_(&self) -> TokenStream {
        let mut ts = TokenStream::new();
        self.to_tokens(&mut ts);
        ts
    }
}

/// finds `break <expr>` belonging to one loop (does not descend into nested loops or closures)
#[derive(Default)]
struct BreakFinder {
    breaks: Vec<String>,
}
impl<'ast> Visit<'ast> for BreakFinder {
    fn visit_expr_break(&mut self, b: &'ast syn::ExprBreak) {
        if b.label.is_none() {
            if let Some(e) = &b.expr {
                self.breaks.push(format!("{{\"span\":{},\"expr\":{}}}", span_json(b.span()), span_json(e.span())));
            }
        }
    }
    fn visit_expr_loop(&mut self, _e: &'ast syn::ExprLoop) {}
    fn visit_expr_while(&mut self, _e: &'ast syn::ExprWhile) {}
    fn visit_expr_for_loop(&mut self, _e: &'ast syn::ExprForLoop) {}
    fn visit_expr_closure(&mut self, _e: &'ast syn::ExprClosure) {}
    fn visit_item(&mut self, _i: &'ast syn::Item) {}
}

#[derive(Default)]
struct Inner {
    nested: Vec<String>,
    loops: Vec<String>,
    closures: Vec<String>,
    macros: Vec<String>,
    cfgs: Vec<String>,
    unsafes: Vec<String>,
    calls: Vec<String>,
    pathcalls: Vec<String>,
    arms: Vec<String>,
    returns: Vec<String>,
}

impl Inner {
    fn note_cfg(&mut self, attrs: &[syn::Attribute], whole: Span) {
        for a in attrs {
            if a.path().is_ident("cfg") {
                let text = compact(a.meta.to_token_stream_());
                self.cfgs.push(format!("{{\"span\":{},\"cfg\":{}}}", span_json(whole), js(&text)));
            }
        }
    }
}

impl<'ast> Visit<'ast> for Inner {
    fn visit_item_fn(&mut self, f: &'ast syn::ItemFn) {
        let ret = match &f.sig.output {
            syn::ReturnType::Default => "null".to_string(),
            syn::ReturnType::Type(_, t) => span_json(t.span()),
        };
        self.nested.push(format!(
            "{{\"name\":{},\"span\":{},\"ret\":{},\"body_start\":{}}}",
            js(&f.sig.ident.to_string()),
            span_json(f.span()),
            ret,
            br(f.block.brace_token.span.open()).0
        ));
        syn::visit::visit_item_fn(self, f);
    }
    fn visit_expr_loop(&mut self, e: &'ast syn::ExprLoop) {
        let mut bf = BreakFinder::default();
        bf.visit_block(&e.body);
        self.loops.push(format!(
            "{{\"kind\":\"loop\",\"span\":{},\"body_start\":{},\"breaks\":[{}]}}",
            span_json(e.span()),
            br(e.body.brace_token.span.open()).0,
            bf.breaks.join(",")
        ));
        syn::visit::visit_expr_loop(self, e);
    }
    fn visit_expr_while(&mut self, e: &'ast syn::ExprWhile) {
        self.loops.push(format!(
            "{{\"kind\":\"while\",\"span\":{},\"body_start\":{}}}",
            span_json(e.span()),
            br(e.body.brace_token.span.open()).0
        ));
        syn::visit::visit_expr_while(self, e);
    }
    fn visit_expr_for_loop(&mut self, e: &'ast syn::ExprForLoop) {
        self.loops.push(format!(
            "{{\"kind\":\"for\",\"span\":{},\"body_start\":{},\"body_end\":{},\"pat\":{},\"expr\":{}}}",
            span_json(e.span()),
            br(e.body.brace_token.span.open()).0,
            br(e.body.brace_token.span.close()).0,
            span_json(e.pat.span()),
            span_json(e.expr.span())
        ));
        syn::visit::visit_expr_for_loop(self, e);
    }
    fn visit_expr_closure(&mut self, e: &'ast syn::ExprClosure) {
        let mut params = Vec::new();
        for p in &e.inputs {
            let wild = matches!(p, syn::Pat::Wild(_));
            // `&…&ident` patterns: how many `&`, and the identifier bound
            let mut depth = 0;
            let mut q = p;
            while let syn::Pat::Reference(r) = q {
                depth += 1;
                q = &*r.pat;
            }
            let ident = match q {
                syn::Pat::Ident(i) if i.by_ref.is_none() && i.subpat.is_none() => js(&i.ident.to_string()),
                _ => "null".to_string(),
            };
            params.push(format!("{{\"span\":{},\"wild\":{},\"refdepth\":{},\"ident\":{}}}", span_json(p.span()), wild, depth, ident));
        }
        let body_is_block = matches!(&*e.body, syn::Expr::Block(_));
        let ret = match &e.output {
            syn::ReturnType::Default => "null".to_string(),
            syn::ReturnType::Type(_, t) => span_json(t.span()),
        };
        self.closures.push(format!(
            "{{\"span\":{},\"params\":[{}],\"or2_end\":{},\"ret\":{},\"body\":{},\"body_is_block\":{},\"is_move\":{}}}",
            span_json(e.span()),
            params.join(","),
            br(e.or2_token.span()).1,
            ret,
            span_json(e.body.span()),
            body_is_block,
            e.capture.is_some()
        ));
        syn::visit::visit_expr_closure(self, e);
    }
    fn visit_macro(&mut self, m: &'ast syn::Macro) {
        let name = m.path.segments.last().map(|s| s.ident.to_string()).unwrap_or_default();
        // `vec![x; n]` and `vec![a, b]` are different library calls: note a top-level `;`
        let semi = m.tokens.clone().into_iter().any(|t| matches!(&t, proc_macro2::TokenTree::Punct(p) if p.as_char() == ';'));
        self.macros.push(format!("{{\"name\":{},\"span\":{},\"semi\":{}}}", js(&name), span_json(m.span()), semi));
        // Try to look inside the macro arguments for expressions (e.g. ready!(…), vec![…]).
        if let Ok(args) = m.parse_body_with(syn::punctuated::Punctuated::<syn::Expr, syn::Token![,]>::parse_terminated) {
            for a in &args {
                self.visit_expr(a);
            }
        }
        syn::visit::visit_macro(self, m);
    }
    fn visit_stmt(&mut self, s: &'ast syn::Stmt) {
        match s {
            syn::Stmt::Local(l) => self.note_cfg(&l.attrs, s.span()),
            syn::Stmt::Macro(m) => self.note_cfg(&m.attrs, s.span()),
            syn::Stmt::Expr(e, _) => {
                let attrs: &[syn::Attribute] = match e {
                    syn::Expr::Block(b) => &b.attrs,
                    syn::Expr::If(b) => &b.attrs,
                    syn::Expr::MethodCall(b) => &b.attrs,
                    syn::Expr::Call(b) => &b.attrs,
                    syn::Expr::Macro(b) => &b.attrs,
                    _ => &[],
                };
                self.note_cfg(attrs, s.span());
            }
            _ => {}
        }
        syn::visit::visit_stmt(self, s);
    }
    fn visit_expr_return(&mut self, e: &'ast syn::ExprReturn) {
        // `return E` (R-RETBIND binds E to a variable so that an exit proof has an anchor)
        let ex = match &e.expr {
            Some(x) => span_json(x.span()),
            None => "null".to_string(),
        };
        self.returns.push(format!("{{\"span\":{},\"expr\":{}}}", span_json(e.span()), ex));
        syn::visit::visit_expr_return(self, e);
    }
    fn visit_expr_unsafe(&mut self, e: &'ast syn::ExprUnsafe) {
        self.unsafes.push(span_json(e.span()));
        syn::visit::visit_expr_unsafe(self, e);
    }
    fn visit_expr_method_call(&mut self, e: &'ast syn::ExprMethodCall) {
        let args: Vec<String> = e.args.iter().map(|a| span_json(a.span())).collect();
        self.calls.push(format!(
            "{{\"name\":{},\"span\":{},\"dot\":{},\"recv\":{},\"args\":[{}]}}",
            js(&e.method.to_string()),
            span_json(e.span()),
            br(e.dot_token.span()).0,
            span_json(e.receiver.span()),
            args.join(",")
        ));
        syn::visit::visit_expr_method_call(self, e);
    }
    fn visit_expr_call(&mut self, e: &'ast syn::ExprCall) {
        if let syn::Expr::Path(p) = &*e.func {
            let name: Vec<String> = p.path.segments.iter().map(|s| s.ident.to_string()).collect();
            self.pathcalls.push(format!("{{\"name\":{},\"span\":{}}}", js(&name.join("::")), span_json(e.span())));
        }
        syn::visit::visit_expr_call(self, e);
    }
    fn visit_arm(&mut self, a: &'ast syn::Arm) {
        // top-level alternatives of an or-pattern (R-ORGUARD splits `A | B if G => X` into one arm per alternative)
        let alts: Vec<String> = match &a.pat {
            syn::Pat::Or(o) => o.cases.iter().map(|c| span_json(c.span())).collect(),
            _ => Vec::new(),
        };
        let guard = match &a.guard {
            Some((_, g)) => span_json(g.span()),
            None => "null".to_string(),
        };
        let end = match &a.comma {
            Some(c) => br(c.span()).1,
            None => br(a.body.span()).1,
        };
        self.arms.push(format!(
            "{{\"span\":[{},{}],\"pat\":{},\"alts\":[{}],\"guard\":{},\"body\":{},\"body_is_block\":{}}}",
            br(a.pat.span()).0,
            end,
            span_json(a.pat.span()),
            alts.join(","),
            guard,
            span_json(a.body.span()),
            matches!(&*a.body, syn::Expr::Block(_))
        ));
        syn::visit::visit_arm(self, a);
    }
    fn visit_expr_await(&mut self, e: &'ast syn::ExprAwait) {
        self.calls.push(format!("{{\"name\":\"await\",\"span\":{},\"dot\":{}}}", span_json(e.span()), br(e.dot_token.span()).0));
        syn::visit::visit_expr_await(self, e);
    }
}

fn sig_json(sig: &syn::Signature) -> String {
    let mut inputs = Vec::new();
    for i in &sig.inputs {
        let recv = matches!(i, syn::FnArg::Receiver(_));
        let (wild, pat) = match i {
            syn::FnArg::Typed(t) => (matches!(&*t.pat, syn::Pat::Wild(_)), span_json(t.pat.span())),
            _ => (false, "null".to_string()),
        };
        inputs.push(format!("{{\"span\":{},\"receiver\":{},\"wild\":{},\"pat\":{}}}", span_json(i.span()), recv, wild, pat));
    }
    let ret = match &sig.output {
        syn::ReturnType::Default => "null".to_string(),
        syn::ReturnType::Type(_, t) => span_json(t.span()),
    };
    let wh = match &sig.generics.where_clause {
        Some(w) => span_json(w.span()),
        None => "null".to_string(),
    };
    let gen = if sig.generics.lt_token.is_some() {
        let a = br(sig.generics.lt_token.unwrap().span()).0;
        let b = br(sig.generics.gt_token.unwrap().span()).1;
        format!("[{},{}]", a, b)
    } else {
        "null".to_string()
    };
    format!(
        "{{\"ident\":{},\"name\":{},\"fn_token\":{},\"asyncness\":{},\"generics\":{},\"inputs\":[{}],\"paren_end\":{},\"ret\":{},\"where\":{}}}",
        span_json(sig.ident.span()),
        js(&sig.ident.to_string()),
        br(sig.fn_token.span()).0,
        match &sig.asyncness { Some(a) => span_json(a.span()), None => "null".into() },
        gen,
        inputs.join(","),
        br(sig.paren_token.span.close()).1,
        ret,
        wh
    )
}

fn vis_json(v: &syn::Visibility) -> String {
    match v {
        syn::Visibility::Inherited => "null".into(),
        other => span_json(other.span()),
    }
}

struct Out {
    items: Vec<String>,
}

impl Out {
    fn add_fn(&mut self, key: String, ctx: &str, attrs: &[syn::Attribute], vis: &syn::Visibility, sig: &syn::Signature, block: Option<&syn::Block>, whole: Span) {
        let mut inner = Inner::default();
        if let Some(b) = block {
            inner.visit_block(b);
        }
        let body = match block {
            Some(b) => span_json(b.span()),
            None => "null".into(),
        };
        // the tail expression of the body (the value the function returns when it falls off the end)
        let tail = match block.and_then(|b| b.stmts.last()) {
            Some(syn::Stmt::Expr(e, None)) => span_json(e.span()),
            _ => "null".into(),
        };
        self.items.push(format!(
            "{{\"kind\":\"fn\",\"key\":{},\"ctx\":{},\"span\":{},\"attrs\":{},\"vis\":{},\"sig\":{},\"body\":{},\"tail\":{},\"loops\":[{}],\"closures\":[{}],\"macros\":[{}],\"cfgs\":[{}],\"unsafes\":[{}],\"calls\":[{}],\"pathcalls\":[{}],\"arms\":[{}],\"returns\":[{}],\"nested\":[{}]}}",
            js(&key),
            js(ctx),
            span_json(whole),
            attrs_json(attrs),
            vis_json(vis),
            sig_json(sig),
            body,
            tail,
            inner.loops.join(","),
            inner.closures.join(","),
            inner.macros.join(","),
            inner.cfgs.join(","),
            inner.unsafes.join(","),
            inner.calls.join(","),
            inner.pathcalls.join(","),
            inner.arms.join(","),
            inner.returns.join(","),
            inner.nested.join(",")
        ));
    }

    fn add_struct(&mut self, key: String, s: &syn::ItemStruct, via_macro: Option<&str>) {
        let mut fields = Vec::new();
        for f in &s.fields {
            fields.push(format!(
                "{{\"name\":{},\"span\":{},\"attrs\":{},\"vis\":{},\"ty\":{}}}",
                js(&f.ident.as_ref().map(|i| i.to_string()).unwrap_or_default()),
                span_json(f.span()),
                attrs_json(&f.attrs),
                vis_json(&f.vis),
                span_json(f.ty.span())
            ));
        }
        let gen = if s.generics.lt_token.is_some() {
            format!("[{},{}]", br(s.generics.lt_token.unwrap().span()).0, br(s.generics.gt_token.unwrap().span()).1)
        } else {
            "null".into()
        };
        let wh = match &s.generics.where_clause {
            Some(w) => span_json(w.span()),
            None => "null".into(),
        };
        self.items.push(format!(
            "{{\"kind\":\"struct\",\"key\":{},\"span\":{},\"attrs\":{},\"vis\":{},\"ident\":{},\"generics\":{},\"where\":{},\"fields\":[{}],\"fields_span\":{},\"via_macro\":{}}}",
            js(&key),
            span_json(s.span()),
            attrs_json(&s.attrs),
            vis_json(&s.vis),
            span_json(s.ident.span()),
            gen,
            wh,
            fields.join(","),
            span_json(s.fields.span()),
            match via_macro { Some(m) => js(m), None => "null".into() }
        ));
    }

    fn walk(&mut self, items: &[syn::Item], prefix: &str) {
        for it in items {
            match it {
                syn::Item::Fn(f) => {
                    self.add_fn(format!("{}{}", prefix, f.sig.ident), "", &f.attrs, &f.vis, &f.sig, Some(&f.block), f.span());
                }
                syn::Item::Impl(im) => {
                    let self_ty = compact(im.self_ty.to_token_stream_());
                    let tr = im.trait_.as_ref().map(|(_, p, _)| p.segments.last().unwrap().ident.to_string());
                    let head = match &tr {
                        Some(t) => format!("{} for {}", t, self_ty),
                        None => self_ty.clone(),
                    };
                    let header_end = br(im.brace_token.span.open()).0;
                    let start = br(im.span()).0;
                    let impl_tok = br(im.impl_token.span()).0;
                    self.items.push(format!(
                        "{{\"kind\":\"impl\",\"key\":{},\"span\":{},\"attrs\":{},\"header\":[{},{}],\"impl_token\":{}}}",
                        js(&format!("{}impl {}", prefix, head)),
                        span_json(im.span()),
                        attrs_json(&im.attrs),
                        start,
                        header_end,
                        impl_tok
                    ));
                    let impl_attr_text: Vec<String> = im.attrs.iter().map(|a| compact(a.meta.to_token_stream_())).collect();
                    let ctx = impl_attr_text.join(";");
                    for ii in &im.items {
                        match ii {
                            syn::ImplItem::Fn(f) => {
                                self.add_fn(format!("{}{}::{}", prefix, head, f.sig.ident), &ctx, &f.attrs, &f.vis, &f.sig, Some(&f.block), f.span());
                            }
                            syn::ImplItem::Type(t) => {
                                self.items.push(format!(
                                    "{{\"kind\":\"assoc_type\",\"key\":{},\"span\":{},\"ty\":{}}}",
                                    js(&format!("{}{}::{}", prefix, head, t.ident)),
                                    span_json(t.span()),
                                    span_json(t.ty.span())
                                ));
                            }
                            syn::ImplItem::Const(c) => {
                                self.items.push(format!(
                                    "{{\"kind\":\"assoc_const\",\"key\":{},\"span\":{},\"ty\":{},\"expr\":{}}}",
                                    js(&format!("{}{}::{}", prefix, head, c.ident)),
                                    span_json(c.span()),
                                    span_json(c.ty.span()),
                                    span_json(c.expr.span())
                                ));
                            }
                            _ => {}
                        }
                    }
                }
                syn::Item::Trait(t) => {
                    self.items.push(format!(
                        "{{\"kind\":\"trait\",\"key\":{},\"span\":{},\"attrs\":{}}}",
                        js(&format!("{}trait {}", prefix, t.ident)),
                        span_json(t.span()),
                        attrs_json(&t.attrs)
                    ));
                    for ti in &t.items {
                        if let syn::TraitItem::Fn(f) = ti {
                            self.add_fn(
                                format!("{}trait {}::{}", prefix, t.ident, f.sig.ident),
                                "",
                                &f.attrs,
                                &syn::Visibility::Inherited,
                                &f.sig,
                                f.default.as_ref(),
                                f.span(),
                            );
                        }
                    }
                }
                syn::Item::Struct(s) => self.add_struct(format!("{}struct {}", prefix, s.ident), s, None),
                syn::Item::Enum(e) => {
                    let mut vars = Vec::new();
                    for v in &e.variants {
                        vars.push(format!("{{\"name\":{},\"span\":{},\"attrs\":{}}}", js(&v.ident.to_string()), span_json(v.span()), attrs_json(&v.attrs)));
                    }
                    self.items.push(format!(
                        "{{\"kind\":\"enum\",\"key\":{},\"span\":{},\"attrs\":{},\"vis\":{},\"variants\":[{}]}}",
                        js(&format!("{}enum {}", prefix, e.ident)),
                        span_json(e.span()),
                        attrs_json(&e.attrs),
                        vis_json(&e.vis),
                        vars.join(",")
                    ));
                }
                syn::Item::Type(t) => {
                    self.items.push(format!(
                        "{{\"kind\":\"type\",\"key\":{},\"span\":{},\"attrs\":{},\"vis\":{}}}",
                        js(&format!("{}type {}", prefix, t.ident)),
                        span_json(t.span()),
                        attrs_json(&t.attrs),
                        vis_json(&t.vis)
                    ));
                }
                syn::Item::Macro(m) => {
                    let name = m.mac.path.segments.last().map(|s| s.ident.to_string()).unwrap_or_default();
                    if name == "pin_project" {
                        if let Ok(s) = syn::parse2::<syn::ItemStruct>(m.mac.tokens.clone()) {
                            self.add_struct(format!("{}struct {}", prefix, s.ident), &s, Some("pin_project"));
                            continue;
                        }
                        if let Ok(e) = syn::parse2::<syn::ItemEnum>(m.mac.tokens.clone()) {
                            self.items.push(format!(
                                "{{\"kind\":\"enum\",\"key\":{},\"span\":{},\"attrs\":{},\"vis\":{},\"variants\":[],\"via_macro\":\"pin_project\"}}",
                                js(&format!("{}enum {}", prefix, e.ident)),
                                span_json(e.span()),
                                attrs_json(&e.attrs),
                                vis_json(&e.vis)
                            ));
                            continue;
                        }
                    }
                    self.items.push(format!("{{\"kind\":\"macro\",\"key\":{},\"span\":{}}}", js(&format!("{}macro {}", prefix, name)), span_json(m.span())));
                }
                syn::Item::Mod(m) => {
                    if let Some((_, items)) = &m.content {
                        let p = format!("{}{}::", prefix, m.ident);
                        self.walk(items, &p);
                    }
                }
                _ => {}
            }
        }
    }
}

fn main() {
    let mut files = Vec::new();
    for path in std::env::args().skip(1) {
        let src = match std::fs::read_to_string(&path) {
            Ok(s) => s,
            Err(e) => {
                files.push(format!("{{\"file\":{},\"error\":{}}}", js(&path), js(&format!("read: {}", e))));
                continue;
            }
        };
        match syn::parse_file(&src) {
            Ok(f) => {
                let mut out = Out { items: Vec::new() };
                out.walk(&f.items, "");
                files.push(format!("{{\"file\":{},\"len\":{},\"items\":[{}]}}", js(&path), src.len(), out.items.join(",")));
            }
            Err(e) => {
                files.push(format!("{{\"file\":{},\"error\":{}}}", js(&path), js(&format!("parse: {}", e))));
            }
        }
    }
    println!("[{}]", files.join(","));
}
