// Stand-in for the pinned source stream of an adapter (`S: Stream<Item = VectorDiff<T>>`) as the poll loop sees it. ASSUMED CONTRACT
// (futures_core::Stream + what C05 proves of the vector's own streams): a Pending poll has registered the caller's waker; an item is a
// diff that is emittable on the source's contents so far (`state`) and leads to the next contents, which stay below usize::MAX items;
// `truncated` remembers whether a Truncate was ever delivered (the known finding F4 is about that diff).
pub trait DiffStream<T> {
    spec fn state(&self) -> Seq<T>;
    spec fn ended(&self) -> bool;
    spec fn parked(&self) -> Option<Waker>;
    spec fn truncated(&self) -> bool;
    fn poll_next(&mut self, cx: &mut Context<'_>) -> (r: Poll<Option<VectorDiff<T>>>)
        ensures
            final(cx).spec_waker() == old(cx).spec_waker(),
            r is Pending ==> final(self).parked() == Some(old(cx).spec_waker()) && final(self).state() == old(self).state() && final(self).truncated() == old(self).truncated(),
            r is Ready && r->Ready_0 is None ==> final(self).ended() && final(self).state() == old(self).state() && final(self).truncated() == old(self).truncated(),
            r is Ready && r->Ready_0 is Some ==> emittable(r->Ready_0->Some_0, old(self).state()) && final(self).state() == apply(r->Ready_0->Some_0, old(self).state())
                && final(self).state().len() < usize::MAX && old(self).state().len() < usize::MAX
                && final(self).truncated() == (old(self).truncated() || r->Ready_0->Some_0 is Truncate);
}
// std::task::ready!
macro_rules! ready {
    ($e:expr $(,)?) => {
        match $e {
            Poll::Ready(t) => t,
            Poll::Pending => {
                return Poll::Pending;
            }
        }
    };
}
// the parameter stream of a dynamic adapter (`L: Stream<Item = usize>`): only the waker registration matters to the poll loop
pub trait ParamStream {
    spec fn parked(&self) -> Option<Waker>;
    /// a new parameter value was delivered at some point
    spec fn delivered(&self) -> bool;
    fn poll_next(&mut self, cx: &mut Context<'_>) -> (r: Poll<Option<usize>>)
        ensures
            final(cx).spec_waker() == old(cx).spec_waker(),
            r is Pending ==> final(self).parked() == Some(old(cx).spec_waker()),
            final(self).delivered() == (old(self).delivered() || (r is Ready && r->Ready_0 is Some));
}
// the batched flavour: an item is the batch of diffs of one source update (a transaction), emittable one after the other
pub open spec fn prefixes_fit<T>(ds: Seq<VectorDiff<T>>, s: Seq<T>) -> bool
    decreases ds.len()
{
    if ds.len() == 0 { s.len() < usize::MAX } else { prefixes_fit(ds.drop_last(), s) && apply_all(ds, s).len() < usize::MAX }
}
pub trait BatchStream<T> {
    spec fn state(&self) -> Seq<T>;
    spec fn ended(&self) -> bool;
    spec fn parked(&self) -> Option<Waker>;
    fn poll_next(&mut self, cx: &mut Context<'_>) -> (r: Poll<Option<Vec<VectorDiff<T>>>>)
        ensures
            final(cx).spec_waker() == old(cx).spec_waker(),
            r is Pending ==> final(self).parked() == Some(old(cx).spec_waker()) && final(self).state() == old(self).state(),
            r is Ready && r->Ready_0 is None ==> final(self).ended() && final(self).state() == old(self).state(),
            r is Ready && r->Ready_0 is Some ==> all_emittable(r->Ready_0->Some_0@, old(self).state()) && final(self).state() == apply_all(r->Ready_0->Some_0@, old(self).state())
                && prefixes_fit(r->Ready_0->Some_0@, old(self).state());
}
