// Stand-ins for smallvec::SmallVec<[T; N]> and arrayvec::ArrayVec<T, N>: sequences. ASSUMED CONTRACTS.
#[verifier::external_body]
#[verifier::accept_recursive_types(A)]
pub struct SmallVec<A> { p: std::marker::PhantomData<A> }
pub trait ArrItem { type Item; }
impl<T> ArrItem for [T; 2] { type Item = T; }
impl<A: ArrItem> View for SmallVec<A> { type V = Seq<A::Item>; uninterp spec fn view(&self) -> Seq<A::Item>; }
impl<A: ArrItem> SmallVec<A> {
    #[verifier::external_body]
    pub fn new() -> (r: Self) ensures r@ == Seq::<A::Item>::empty() { unimplemented!() }
    #[verifier::external_body]
    pub fn push(&mut self, v: A::Item) ensures final(self)@ == old(self)@.push(v) { unimplemented!() }
    #[verifier::external_body]
    pub fn extend(&mut self, it: SeqIt<A::Item>) ensures final(self)@ == old(self)@ + it@ { unimplemented!() }
    #[verifier::external_body]
    pub fn pop(&mut self) -> (r: Option<A::Item>)
        ensures old(self)@.len() == 0 ==> r.is_none() && final(self)@ == old(self)@,
                old(self)@.len() > 0 ==> r == Some(old(self)@.last()) && final(self)@ == old(self)@.drop_last(),
    { unimplemented!() }
    #[verifier::external_body]
    pub fn len(&self) -> (r: usize) ensures r == self@.len() { unimplemented!() }
    #[verifier::external_body]
    pub fn is_empty(&self) -> (r: bool) ensures r == (self@.len() == 0) { unimplemented!() }
    #[verifier::external_body]
    pub fn reverse(&mut self) ensures final(self)@ == old(self)@.reverse() { unimplemented!() }
    #[verifier::external_body]
    pub fn into_iter(self) -> (r: SeqIt<A::Item>) ensures r@ == self@ { unimplemented!() }
    #[verifier::external_body]
    pub fn insert_many(&mut self, index: usize, it: SeqIt<A::Item>)
        requires index <= old(self)@.len()
        ensures final(self)@ == old(self)@.subrange(0, index as int) + it@ + old(self)@.subrange(index as int, old(self)@.len() as int)
    { unimplemented!() }
    pub broadcast axiom fn axiom_len_fits(&self) ensures #[trigger] self@.len() <= usize::MAX;
}

#[verifier::external_body]
#[verifier::accept_recursive_types(T)]
pub struct ArrayVec<T, const N: usize> { inner: std::marker::PhantomData<T> }
impl<T, const N: usize> View for ArrayVec<T, N> {
    type V = Seq<T>;
    uninterp spec fn view(&self) -> Seq<T>;
}
impl<T, const N: usize> ArrayVec<T, N> {
    #[verifier::external_body]
    pub fn new() -> (r: Self) ensures r@ == Seq::<T>::empty() { unimplemented!() }
    // arrayvec: push panics when full — modelled as a precondition
    #[verifier::external_body]
    pub fn push(&mut self, v: T)
        requires old(self)@.len() < N
        ensures final(self)@ == old(self)@.push(v)
    { unimplemented!() }
    #[verifier::external_body]
    pub fn pop(&mut self) -> (r: Option<T>)
        ensures old(self)@.len() == 0 ==> r.is_none() && final(self)@ == old(self)@,
                old(self)@.len() > 0 ==> r == Some(old(self)@.last()) && final(self)@ == old(self)@.drop_last(),
    { unimplemented!() }
    pub broadcast axiom fn axiom_cap(&self) ensures #[trigger] self@.len() <= N;
}
impl<A: ArrItem> Default for SmallVec<A> {
    #[verifier::external_body]
    fn default() -> (r: Self) ensures r@ == Seq::<A::Item>::empty() { unimplemented!() }
}
