// Stand-ins for the iterator adapters the extracted code uses: an iterator is its remaining items as a Seq.
// ASSUMED CONTRACTS ON std (iterator adapters are outside what Verus/vstd can take directly).
#[verifier::external_body]
#[verifier::accept_recursive_types(A)]
pub struct SeqIt<A> { p: std::marker::PhantomData<A> }
impl<A> View for SeqIt<A> { type V = Seq<A>; uninterp spec fn view(&self) -> Seq<A>; }
impl<A> SeqIt<A> {
    #[verifier::external_body]
    pub fn rev(self) -> (r: SeqIt<A>) ensures r@ == self@.reverse() { unimplemented!() }
    #[verifier::external_body]
    pub fn skip(self, n: usize) -> (r: SeqIt<A>) ensures r@ == (if n <= self@.len() { self@.subrange(n as int, self@.len() as int) } else { Seq::empty() }) { unimplemented!() }
    #[verifier::external_body]
    pub fn take(self, n: usize) -> (r: SeqIt<A>) ensures r@ == (if n <= self@.len() { self@.subrange(0, n as int) } else { self@ }) { unimplemented!() }
    #[verifier::external_body]
    pub fn map<B, F: FnMut(A) -> B>(self, f: F) -> (r: SeqIt<B>)
        requires forall|i: int| 0 <= i < self@.len() ==> call_requires(f, (#[trigger] self@[i],)),
        ensures r@.len() == self@.len(), forall|i: int| 0 <= i < self@.len() ==> call_ensures(f, (self@[i],), #[trigger] r@[i])
    { unimplemented!() }
    #[verifier::external_body]
    pub fn peekable(self) -> (r: PeekIt<A>) ensures r@ == self@ { unimplemented!() }
    #[verifier::external_body]
    pub fn collect<C: FromSeqIt<A>>(self) -> (r: C) ensures r.as_seq() == self@ { unimplemented!() }
}
impl<'a, T: Clone> SeqIt<&'a T> {
    #[verifier::external_body]
    pub fn cloned(self) -> (r: SeqIt<T>) ensures r@.len() == self@.len(), forall|i: int| 0 <= i < self@.len() ==> #[trigger] r@[i] == *self@[i] { unimplemented!() }
}
pub trait FromSeqIt<T>: Sized { spec fn as_seq(&self) -> Seq<T>; }
impl<T> FromSeqIt<T> for Vector<T> { open spec fn as_seq(&self) -> Seq<T> { self@ } }
impl<T> FromSeqIt<T> for Vec<T> { open spec fn as_seq(&self) -> Seq<T> { self@ } }

#[verifier::external_body]
#[verifier::accept_recursive_types(A)]
pub struct PeekIt<A> { p: std::marker::PhantomData<A> }
impl<A> View for PeekIt<A> { type V = Seq<A>; uninterp spec fn view(&self) -> Seq<A>; }
impl<A> PeekIt<A> {
    #[verifier::external_body]
    pub fn peek(&mut self) -> (r: Option<&A>)
        ensures final(self)@ == old(self)@, r.is_none() == (old(self)@.len() == 0)
    { unimplemented!() }
    #[verifier::external_body]
    pub fn rev(self) -> (r: SeqIt<A>) ensures r@ == self@.reverse() { unimplemented!() }
    #[verifier::external_body]
    pub fn map<B, F: Fn(A) -> B>(self, f: F) -> (r: SeqIt<B>)
        requires forall|a: A| call_requires(f, (a,)),
        ensures r@.len() == self@.len(), forall|i: int| 0 <= i < self@.len() ==> call_ensures(f, (self@[i],), #[trigger] r@[i])
    { unimplemented!() }
}

pub open spec fn rep<A>(d: A, n: nat) -> Seq<A> { Seq::new(n, |i: int| d) }
#[verifier::external_body]
#[verifier::accept_recursive_types(A)]
pub struct RepeatIt<A> { p: std::marker::PhantomData<A> }
impl<A> RepeatIt<A> {
    pub uninterp spec fn elem(&self) -> A;
    #[verifier::external_body]
    pub fn take(self, n: usize) -> (r: SeqIt<A>) ensures r@ == rep(self.elem(), n as nat) { unimplemented!() }
}
// std::iter::repeat
#[verifier::external_body]
pub fn repeat<A>(a: A) -> (r: RepeatIt<A>) ensures r.elem() == a { unimplemented!() }
