// Stand-ins for the imbl::Vector / iterator methods that only sort.rs uses. ASSUMED CONTRACTS ON A DEPENDENCY (compared with the
// real crate, bounded, by /verif/bounded `depcheck`).  A closure's `ensures` is known to Verus only as a consequence of
// `call_ensures`, so the contracts are phrased over the outcomes the closure can have.
pub open spec fn ord_rank(o: Ordering) -> int { match o { Ordering::Less => 0, Ordering::Equal => 1, Ordering::Greater => 2 } }
// what `binary_search_by` needs of its probe: one outcome per item, and Less… Equal… Greater… along the vector
pub open spec fn bs_monotone<A, F: FnMut(&A) -> Ordering>(s: Seq<A>, f: F) -> bool {
    &&& forall|i: int, o1: Ordering, o2: Ordering| 0 <= i < s.len() && #[trigger] call_ensures(f, (&s[i],), o1) && #[trigger] call_ensures(f, (&s[i],), o2) ==> o1 == o2
    &&& forall|i: int, j: int, oi: Ordering, oj: Ordering| 0 <= i < j < s.len() && #[trigger] call_ensures(f, (&s[i],), oi) && #[trigger] call_ensures(f, (&s[j],), oj) ==> ord_rank(oi) <= ord_rank(oj)
}
// what `sort_by` needs of its comparator: it computes a function `o` that is a total preorder
pub open spec fn cmp_total<A, F: Fn(&A, &A) -> Ordering>(f: F, o: spec_fn(A, A) -> Ordering) -> bool {
    &&& forall|a: &A, b: &A| call_requires(f, (a, b))
    &&& forall|a: &A, b: &A, r: Ordering| call_ensures(f, (a, b), r) ==> r == o(*a, *b)
    &&& forall|a: A, b: A| (#[trigger] o(a, b) == Ordering::Less) <==> (o(b, a) == Ordering::Greater)
    &&& forall|a: A, b: A, c: A| #[trigger] o(a, b) != Ordering::Greater && #[trigger] o(b, c) != Ordering::Greater ==> o(a, c) != Ordering::Greater
}
// `p` lists the positions 0..n, each once
pub open spec fn is_perm(p: Seq<int>, n: int) -> bool {
    p.len() == n && (forall|i: int| 0 <= i < n ==> 0 <= #[trigger] p[i] < n) && (forall|i: int, j: int| 0 <= i < j < n ==> p[i] != p[j])
}
pub open spec fn permuted<A>(a: Seq<A>, b: Seq<A>, p: Seq<int>) -> bool {
    is_perm(p, a.len() as int) && b.len() == a.len() && forall|i: int| 0 <= i < b.len() ==> #[trigger] b[i] == a[p[i]]
}
impl<T: Clone> Vector<T> {
    // R-FOREACH / R-FOLD: `iter_mut()` hands out the items front to back, each once; `nth_mut(k)` is the k-th of them
    #[verifier::external_body]
    pub fn nth_mut(&mut self, i: usize) -> (r: &mut T) requires i < old(self)@.len()
        ensures *r == old(self)@[i as int], final(self)@ == old(self)@.update(i as int, *final(r)) { unimplemented!() }
    // imbl: the result is unspecified on a vector that is not sorted with respect to the probe
    #[verifier::external_body]
    pub fn binary_search_by<F: FnMut(&T) -> Ordering>(&self, f: F) -> (r: Result<usize, usize>)
        requires forall|i: int| 0 <= i < self@.len() ==> call_requires(f, (&self@[i],)), bs_monotone(self@, f),
        ensures match r {
            Ok(i) => i < self@.len() && call_ensures(f, (&self@[i as int],), Ordering::Equal),
            Err(i) => i <= self@.len() && (forall|j: int| 0 <= j < i ==> call_ensures(f, (&#[trigger] self@[j],), Ordering::Less))
                && (forall|j: int| i <= j < self@.len() ==> call_ensures(f, (&#[trigger] self@[j],), Ordering::Greater)),
        }
    { unimplemented!() }
    // imbl's sort_by (its own quicksort: swaps only, not stable): the result is a rearrangement, and ascending for every
    // total preorder `o` that the comparator computes (nothing more is promised for an inconsistent comparator)
    #[verifier::external_body]
    pub fn sort_by<F: Fn(&T, &T) -> Ordering>(&mut self, f: F)
        requires forall|a: &T, b: &T| call_requires(f, (a, b)),
        ensures exists|p: Seq<int>| #[trigger] permuted(old(self)@, final(self)@, p),
            forall|o: spec_fn(T, T) -> Ordering, i: int, j: int| cmp_total(f, o) && 0 <= i < j < final(self)@.len() ==> #[trigger] o(final(self)@[i], final(self)@[j]) != Ordering::Greater,
    { unimplemented!() }
    #[verifier::external_body]
    pub fn last(&self) -> (r: Option<&T>)
        ensures r == (if self@.len() > 0 { Some(&self@[self@.len() - 1]) } else { None::<&T> })
    { unimplemented!() }
}
impl<A> SeqIt<A> {
    // the first item the predicate accepts (the predicate is called on the items front to back, up to and including that one)
    #[verifier::external_body]
    pub fn position<P: FnMut(A) -> bool>(&mut self, pred: P) -> (r: Option<usize>)
        requires forall|i: int| 0 <= i < old(self)@.len() ==> call_requires(pred, (old(self)@[i],)),
        ensures match r {
            Some(k) => k < old(self)@.len() && call_ensures(pred, (old(self)@[k as int],), true) && forall|j: int| 0 <= j < k ==> call_ensures(pred, (#[trigger] old(self)@[j],), false),
            None => forall|j: int| 0 <= j < old(self)@.len() ==> call_ensures(pred, (#[trigger] old(self)@[j],), false),
        }
    { unimplemented!() }
}
pub assume_specification [Ordering::is_ge] (o: Ordering) -> (r: bool) ensures r == (o != Ordering::Less);
