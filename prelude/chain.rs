// Stand-ins for the iterator chain of FilterMap::new: `iter().enumerate().filter_map(f).unzip()`. ASSUMED CONTRACTS on std
// (items front to back, the closure once per item, unzip splits the pairs in order) — compared by depcheck.
pub open spec fn somes<B>(outs: Seq<Option<B>>) -> Seq<B>
    decreases outs.len()
{
    if outs.len() == 0 { Seq::empty() } else if outs.last() is Some { somes(outs.drop_last()).push(outs.last()->Some_0) } else { somes(outs.drop_last()) }
}
/// `outs` is what the closure returned for the items of `ins`, one by one, in order
pub open spec fn mapped_by<A, C, F: FnMut(A) -> C>(ins: Seq<A>, outs: Seq<C>, f: F) -> bool {
    outs.len() == ins.len() && forall|i: int| 0 <= i < ins.len() ==> call_ensures(f, (ins[i],), #[trigger] outs[i])
}
impl<A> SeqIt<A> {
    #[verifier::external_body]
    pub fn enumerate(self) -> (r: SeqIt<(usize, A)>)
        ensures r@.len() == self@.len(), forall|i: int| 0 <= i < self@.len() ==> #[trigger] r@[i] == (i as usize, self@[i])
    { unimplemented!() }
    #[verifier::external_body]
    pub fn filter_map<B, F: FnMut(A) -> Option<B>>(self, f: F) -> (r: SeqIt<B>)
        requires forall|a: A| call_requires(f, (a,)),
        ensures exists|outs: Seq<Option<B>>| #[trigger] mapped_by(self@, outs, f) && r@ == somes(outs)
    { unimplemented!() }
}
pub trait FromSeqItQ<T>: Sized { spec fn as_seq_q(&self) -> Seq<T>; }
impl<T> FromSeqItQ<T> for Vector<T> { open spec fn as_seq_q(&self) -> Seq<T> { self@ } }
impl FromSeqItQ<usize> for VecDeque<usize> { open spec fn as_seq_q(&self) -> Seq<usize> { self@ } }
impl<A, B> SeqIt<(A, B)> {
    #[verifier::external_body]
    pub fn unzip<FA: FromSeqItQ<A>, FB: FromSeqItQ<B>>(self) -> (r: (FA, FB))
        ensures r.0.as_seq_q() == self@.map_values(|p: (A, B)| p.0), r.1.as_seq_q() == self@.map_values(|p: (A, B)| p.1)
    { unimplemented!() }
}
