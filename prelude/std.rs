// std items without a vstd specification. ASSUMED CONTRACTS.
pub assume_specification<T, E> [std::result::Result::<T, E>::unwrap_or] (r: std::result::Result<T, E>, d: T) -> (o: T) ensures o == (match r { Ok(v) => v, Err(_) => d });
pub assume_specification<T> [std::mem::replace] (dest: &mut T, src: T) -> (r: T) ensures r == *old(dest), *final(dest) == src;
// std::cmp::min on usize
pub fn min(a: usize, b: usize) -> (r: usize) ensures r == if a <= b { a } else { b } { if a <= b { a } else { b } }
pub assume_specification<T> [std::option::Option::<T>::replace] (o: &mut Option<T>, v: T) -> (r: Option<T>) ensures r == *old(o), *final(o) == Some(v);
pub assume_specification [<usize as core::convert::From<bool>>::from] (b: bool) -> (r: usize) ensures r == (if b { 1usize } else { 0usize });
pub assume_specification [usize::abs_diff] (a: usize, b: usize) -> (r: usize) ensures r == (if a >= b { a - b } else { b - a });
pub assume_specification<T, F: FnOnce(T) -> bool> [std::option::Option::<T>::is_some_and] (o: std::option::Option<T>, f: F) -> (r: bool)
    requires o is Some ==> call_requires(f, (o->Some_0,)),
    ensures o is None ==> !r, o is Some ==> call_ensures(f, (o->Some_0,), r);
pub assume_specification<T>[bool::then_some](b: bool, t: T) -> (r: std::option::Option<T>)
    ensures r == (if b { Some(t) } else { None::<T> });
