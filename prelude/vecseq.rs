// Stand-in for std::vec::Vec in the units where Vec is only used through iterator chains
// (`into_iter().rev()`, `into_iter().flat_map(f).collect()`, `into_iter().filter_map(f).collect()`), plus the
// flat_map / filter_map adapters on the SeqIt stand-in. ASSUMED CONTRACTS on std.
#[verifier::external_body]
#[verifier::accept_recursive_types(T)]
pub struct Vec<T> { p: std::marker::PhantomData<T> }
impl<T> View for Vec<T> { type V = Seq<T>; uninterp spec fn view(&self) -> Seq<T>; }
impl<T> Vec<T> {
    #[verifier::external_body]
    pub fn into_iter(self) -> (r: SeqIt<T>) ensures r@ == self@ { unimplemented!() }
    #[verifier::external_body]
    pub fn is_empty(&self) -> (r: bool) ensures r == (self@.len() == 0) { unimplemented!() }
    #[verifier::external_body]
    pub fn len(&self) -> (r: usize) ensures r == self@.len() { unimplemented!() }
    // vec![x]
    #[verifier::external_body]
    pub fn from_one(x: T) -> (r: Self) ensures r@ == seq![x] { unimplemented!() }
}
/// something a flat_map closure may return: a short sequence of items
pub trait AsSeq<B> { spec fn items(&self) -> Seq<B>; }
impl<B, const N: usize> AsSeq<B> for ArrayVec<B, N> { open spec fn items(&self) -> Seq<B> { self@ } }
impl<B> AsSeq<B> for SmallVec<[B; 2]> { open spec fn items(&self) -> Seq<B> { self@ } }
pub open spec fn flat<B, C: AsSeq<B>>(outs: Seq<C>) -> Seq<B>
    decreases outs.len()
{
    if outs.len() == 0 { Seq::empty() } else { flat(outs.drop_last()) + outs.last().items() }
}
pub open spec fn somes<B>(outs: Seq<Option<B>>) -> Seq<B>
    decreases outs.len()
{
    if outs.len() == 0 { Seq::empty() } else if outs.last() is Some { somes(outs.drop_last()).push(outs.last()->Some_0) } else { somes(outs.drop_last()) }
}
/// `outs` is what the closure returned for the items of `ins`, one by one, in order
pub open spec fn mapped_by<A, C, F: FnMut(A) -> C>(ins: Seq<A>, outs: Seq<C>, f: F) -> bool {
    outs.len() == ins.len() && forall|i: int| 0 <= i < ins.len() ==> call_ensures(f, (ins[i],), #[trigger] outs[i])
}
impl<A> SeqIt<A> {
    #[verifier::external_body]
    pub fn flat_map<B, C: AsSeq<B>, F: FnMut(A) -> C>(self, f: F) -> (r: SeqIt<B>)
        requires forall|a: A| call_requires(f, (a,)),
        ensures exists|outs: Seq<C>| #[trigger] mapped_by(self@, outs, f) && r@ == flat(outs)
    { unimplemented!() }
    #[verifier::external_body]
    pub fn filter_map<B, F: FnMut(A) -> Option<B>>(self, f: F) -> (r: SeqIt<B>)
        requires forall|a: A| call_requires(f, (a,)),
        ensures exists|outs: Seq<Option<B>>| #[trigger] mapped_by(self@, outs, f) && r@ == somes(outs)
    { unimplemented!() }
}
