// Stand-in for imbl::Vector<T>: an opaque type whose abstract view is Seq<T>.
// ASSUMED CONTRACT ON A DEPENDENCY (checked against the real crate, bounded, by /verif/bounded `depcheck`).
#[verifier::external_body]
#[verifier::accept_recursive_types(T)]
pub struct Vector<T> { inner: std::marker::PhantomData<T> }

impl<T> View for Vector<T> {
    type V = Seq<T>;
    uninterp spec fn view(&self) -> Seq<T>;
}

impl<T> Vector<T> {
    pub broadcast axiom fn axiom_len_fits(&self) ensures #[trigger] self@.len() <= usize::MAX;
}

impl<T: Clone> Clone for Vector<T> {
    #[verifier::external_body]
    fn clone(&self) -> (r: Self) ensures r@ == self@ { unimplemented!() }
}

impl<T: Clone> Default for Vector<T> {
    #[verifier::external_body]
    fn default() -> (r: Self) ensures r@ == Seq::<T>::empty() { unimplemented!() }
}

impl<T: Clone> Vector<T> {
    #[verifier::external_body]
    pub fn new() -> (r: Self) ensures r@ == Seq::<T>::empty() { unimplemented!() }
    #[verifier::external_body]
    pub fn len(&self) -> (r: usize) ensures r == self@.len() { unimplemented!() }
    #[verifier::external_body]
    pub fn is_empty(&self) -> (r: bool) ensures r == (self@.len() == 0) { unimplemented!() }
    // imbl: truncate(len) with len >= self.len() is a no-op
    #[verifier::external_body]
    pub fn truncate(&mut self, len: usize)
        ensures final(self)@ == (if len < old(self)@.len() { old(self)@.subrange(0, len as int) } else { old(self)@ })
    { unimplemented!() }
    #[verifier::external_body]
    pub fn get(&self, i: usize) -> (r: Option<&T>)
        ensures (i < self@.len()) ==> r == Some(&self@[i as int]),
                (i >= self@.len()) ==> r.is_none()
    { unimplemented!() }
    #[verifier::external_body]
    pub fn append(&mut self, o: Vector<T>) ensures final(self)@ == old(self)@ + o@ { unimplemented!() }
    #[verifier::external_body]
    pub fn clear(&mut self) ensures final(self)@ == Seq::<T>::empty() { unimplemented!() }
    #[verifier::external_body]
    pub fn push_front(&mut self, v: T) ensures final(self)@ == seq![v] + old(self)@ { unimplemented!() }
    #[verifier::external_body]
    pub fn push_back(&mut self, v: T) ensures final(self)@ == old(self)@.push(v) { unimplemented!() }
    #[verifier::external_body]
    pub fn pop_front(&mut self) -> (r: Option<T>)
        ensures old(self)@.len() == 0 ==> r.is_none() && final(self)@ == old(self)@,
                old(self)@.len() > 0 ==> r == Some(old(self)@[0]) && final(self)@ == old(self)@.subrange(1, old(self)@.len() as int)
    { unimplemented!() }
    #[verifier::external_body]
    pub fn pop_back(&mut self) -> (r: Option<T>)
        ensures old(self)@.len() == 0 ==> r.is_none() && final(self)@ == old(self)@,
                old(self)@.len() > 0 ==> r == Some(old(self)@.last()) && final(self)@ == old(self)@.subrange(0, old(self)@.len() - 1)
    { unimplemented!() }
    // imbl panics for an index beyond the end: modelled as a precondition
    #[verifier::external_body]
    pub fn insert(&mut self, i: usize, v: T) requires i <= old(self)@.len() ensures final(self)@ == old(self)@.insert(i as int, v) { unimplemented!() }
    #[verifier::external_body]
    pub fn set(&mut self, i: usize, v: T) -> (r: T) requires i < old(self)@.len() ensures final(self)@ == old(self)@.update(i as int, v), r == old(self)@[i as int] { unimplemented!() }
    #[verifier::external_body]
    pub fn remove(&mut self, i: usize) -> (r: T) requires i < old(self)@.len() ensures final(self)@ == old(self)@.remove(i as int), r == old(self)@[i as int] { unimplemented!() }
    #[verifier::external_body]
    pub fn into_iter(self) -> (r: SeqIt<T>) ensures r@ == self@ { unimplemented!() }
    #[verifier::external_body]
    pub fn iter(&self) -> (r: SeqIt<&T>) ensures r@.len() == self@.len(), forall|i: int| #![trigger r@[i]] #![trigger self@[i]] 0 <= i < self@.len() ==> *(r@[i]) == self@[i] { unimplemented!() }
    #[verifier::external_body]
    pub fn split_at(self, i: usize) -> (r: (Vector<T>, Vector<T>)) requires i <= self@.len() ensures r.0@ == self@.subrange(0, i as int), r.1@ == self@.subrange(i as int, self@.len() as int) { unimplemented!() }
    // imbl 5: skip(count) beyond the length gives the empty vector (measured by depcheck; it does not panic)
    #[verifier::external_body]
    pub fn skip(&self, count: usize) -> (r: Vector<T>) ensures r@ == (if count <= self@.len() { self@.subrange(count as int, self@.len() as int) } else { Seq::empty() }) { unimplemented!() }
}
