// R-LOCK (handle units): std::sync::RwLock<S> reached through a handle in a sequential execution: read()/write()
// hand out the protected state (both as &mut: the state.rs functions were given `&mut self` receivers by R-LOCK).
pub struct RwLock<S> { pub inner: S }
impl<S> RwLock<S> {
    pub fn new(s: S) -> (r: Self) ensures r.inner == s { RwLock { inner: s } }
    pub fn write(&mut self) -> (r: Result<&mut S, ()>)
        ensures r is Ok, *r->Ok_0 == old(self).inner, *final(r->Ok_0) == final(self).inner
    { Ok(&mut self.inner) }
    pub fn read(&mut self) -> (r: Result<&mut S, ()>)
        ensures r is Ok, *r->Ok_0 == old(self).inner, *final(r->Ok_0) == final(self).inner
    { Ok(&mut self.inner) }
    pub fn try_read(&mut self) -> (r: Result<&mut S, ()>)
        ensures r is Ok, *r->Ok_0 == old(self).inner, *final(r->Ok_0) == final(self).inner
    { Ok(&mut self.inner) }
}
