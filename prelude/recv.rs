// tokio broadcast receive side and the boxed receive future. ASSUMED CONTRACTS ON DEPENDENCIES (checked against the
// real tokio channel, bounded, by the `sub` enumeration): messages are received in FIFO order; a receiver that fell
// behind reports `Lagged` exactly once and continues with the oldest retained message; `Closed` is reported only
// after everything retained was received; a pending recv has registered the caller's waker.
pub enum RecvError { Closed, Lagged(u64) }
pub enum TryRecvError { Empty, Closed, Lagged(u64) }
impl<M> Receiver<M> {
    #[verifier::external_body]
    pub fn try_recv(&mut self) -> (r: Result<M, TryRecvError>)
        ensures
            final(self).closed() == old(self).closed(), final(self).start() == old(self).start(),
            old(self).lagged() ==> r is Err && r->Err_0 is Lagged && !final(self).lagged() && final(self).queue() == old(self).queue(),
            !old(self).lagged() && old(self).queue().len() > 0 ==> r == Ok::<M, TryRecvError>(old(self).queue()[0]) && final(self).queue() == old(self).queue().subrange(1, old(self).queue().len() as int) && !final(self).lagged(),
            !old(self).lagged() && old(self).queue().len() == 0 ==> r is Err && (old(self).closed() ==> r->Err_0 is Closed) && (!old(self).closed() ==> r->Err_0 is Empty) && final(self).queue() == old(self).queue() && !final(self).lagged(),
    { unimplemented!() }
}
// relation between a receiver before a completed recv(), the result, and the receiver afterwards
pub open spec fn recv_rel<M>(rx: Receiver<M>, r: Result<M, RecvError>, rx2: Receiver<M>) -> bool {
    &&& rx2.closed() == rx.closed()
    &&& !rx2.lagged()
    &&& (rx.lagged() ==> r is Err && r->Err_0 is Lagged && rx2.queue() == rx.queue())
    &&& (!rx.lagged() && rx.queue().len() > 0 ==> r == Ok::<M, RecvError>(rx.queue()[0]) && rx2.queue() == rx.queue().subrange(1, rx.queue().len() as int))
    &&& (!rx.lagged() && rx.queue().len() == 0 ==> rx.closed() && r is Err && r->Err_0 is Closed && rx2.queue() == rx.queue())
}
