// Stand-in for the waker list `Vec<Waker>` of state.rs (vstd has no `drain`). ASSUMED CONTRACT.
// the waker list: the only operations that empty it are `drain(..)` and `mem::take`, whose results go to `wake`
#[verifier::external_body]
#[verifier::accept_recursive_types(T)]
pub struct Vec<T> { p: std::marker::PhantomData<T> }
impl<T> View for Vec<T> { type V = Seq<T>; uninterp spec fn view(&self) -> Seq<T>; }
#[verifier::external_body]
#[verifier::accept_recursive_types(T)]
pub struct Drain<T> { p: std::marker::PhantomData<T> }
impl<T> View for Drain<T> { type V = Seq<T>; uninterp spec fn view(&self) -> Seq<T>; }
impl<T> Vec<T> {
    #[verifier::external_body]
    pub fn new() -> (r: Self) ensures r@.len() == 0 { unimplemented!() }
    #[verifier::external_body]
    pub fn push(&mut self, v: T) ensures final(self)@ == old(self)@.push(v) { unimplemented!() }
    #[verifier::external_body]
    pub fn drain(&mut self, r: std::ops::RangeFull) -> (d: Drain<T>) ensures d@ == old(self)@, final(self)@.len() == 0 { unimplemented!() }
}
impl<T> Default for Vec<T> {
    #[verifier::external_body]
    fn default() -> (r: Self) ensures r@.len() == 0 { unimplemented!() }
}
