// Caller view of eyeball/src/state.rs for the units that verify the handles (R-LOCK, DESIGN.md §3.3):
// the contracts proved in unit `state`, with the clauses about `final(self)` dropped (the handles reach the state
// through `&`), the waker-list clause replaced by the monotone fact `registered(state, waker)`.
// TRUSTED TO MATCH unit `state` (same case split, same result clauses); listed in the evidence as caller view.
#[verifier::external_body]
#[verifier::accept_recursive_types(T)]
pub struct ObservableState<T> { p: std::marker::PhantomData<T> }
pub uninterp spec fn registered<T>(s: ObservableState<T>, w: Waker) -> bool;
impl<T> ObservableState<T> {
    pub uninterp spec fn value(&self) -> T;
    pub uninterp spec fn ver(&self) -> u64;
    #[verifier::external_body]
    pub fn new(value: T) -> (r: Self) ensures r.value() == value, r.ver() == 1 { unimplemented!() }
    #[verifier::external_body]
    pub fn get(&self) -> (r: &T) ensures *r == self.value() { unimplemented!() }
    #[verifier::external_body]
    pub fn version(&self) -> (r: u64) ensures r == self.ver() { unimplemented!() }
    #[verifier::external_body]
    pub fn poll_update(&self, observed_version: &mut u64, cx: &Context<'_>) -> (res: Poll<Option<()>>)
        ensures
            self.ver() == 0 ==> res == Poll::Ready(None::<()>) && *final(observed_version) == *old(observed_version),
            self.ver() != 0 && *old(observed_version) < self.ver() ==> res == Poll::Ready(Some(())) && *final(observed_version) == self.ver(),
            self.ver() != 0 && *old(observed_version) >= self.ver() ==> res == Poll::<Option<()>>::Pending && *final(observed_version) == *old(observed_version) && registered(*self, cx.spec_waker()),
    { unimplemented!() }
}
impl<T> Poll<T> {
    // std::task::Poll::map
    #[verifier::external_body]
    pub fn map<U, F: FnOnce(T) -> U>(self, f: F) -> (r: Poll<U>)
        requires self is Ready ==> call_requires(f, (self->Ready_0,)),
        ensures self is Pending ==> r is Pending,
            self is Ready ==> r is Ready && call_ensures(f, (self->Ready_0,), r->Ready_0),
    { unimplemented!() }
}
// readlock::{SharedReadLock, SharedReadGuard}: transparent wrappers; `cur()` is the shared state at the time of the call
#[verifier::external_body]
#[verifier::accept_recursive_types(S)]
pub struct SharedReadLock<S> { p: std::marker::PhantomData<S> }
impl<S> SharedReadLock<S> {
    pub uninterp spec fn cur(&self) -> S;
    #[verifier::external_body]
    pub fn lock(&self) -> (g: SharedReadGuard<'_, S>) ensures g.target() == self.cur() { unimplemented!() }
}
impl<S> Clone for SharedReadLock<S> {
    #[verifier::external_body]
    fn clone(&self) -> (r: Self) ensures r.cur() == self.cur() { unimplemented!() }
}
#[verifier::external_body]
#[verifier::accept_recursive_types(S)]
pub struct SharedReadGuard<'a, S> { p: std::marker::PhantomData<&'a S> }
impl<'a, S> SharedReadGuard<'a, S> { pub uninterp spec fn target(&self) -> S; }
impl<'a, S> std::ops::Deref for SharedReadGuard<'a, S> {
    type Target = S;
    #[verifier::external_body]
    fn deref(&self) -> (r: &S) ensures *r == self.target() { unimplemented!() }
}
pub mod readlock { pub use super::SharedReadLock; }
