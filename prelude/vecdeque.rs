// std::collections::VecDeque: the methods filter.rs uses that vstd does not specify. ASSUMED CONTRACTS (compared with std by `depcheck`).
// (index, index_mut, len, push_back, push_front, pop_back, pop_front, insert, remove, clear, truncate come from vstd.)
// Every outcome the predicate can have is the same for one item, and once it can reject it keeps rejecting.
// (Verus knows a closure's `ensures` only as a consequence of `call_ensures`, so the contract is phrased over possible outcomes.)
pub open spec fn monotone_pred<T, P: FnMut(&T) -> bool>(v: Seq<T>, pred: P) -> bool {
    &&& forall|i: int, b1: bool, b2: bool| 0 <= i < v.len() && #[trigger] call_ensures(pred, (&v[i],), b1) && #[trigger] call_ensures(pred, (&v[i],), b2) ==> b1 == b2
    &&& forall|i: int, j: int, bi: bool, bj: bool| 0 <= i < j < v.len() && #[trigger] call_ensures(pred, (&v[i],), bi) && #[trigger] call_ensures(pred, (&v[j],), bj) && bj ==> bi
}
// binary search for the first item the predicate rejects (std: unspecified result on a deque that is not partitioned).
// Assumes the predicate is a total, pure function of the item (the ones in filter.rs are comparisons of a usize).
pub assume_specification<T, A: core::alloc::Allocator, P: FnMut(&T) -> bool>[VecDeque::<T, A>::partition_point](v: &VecDeque<T, A>, pred: P) -> (r: usize)
    requires forall|i: int| 0 <= i < v@.len() ==> call_requires(pred, (&v@[i],)), monotone_pred(v@, pred),
    ensures r <= v@.len(), forall|i: int| 0 <= i < r ==> call_ensures(pred, (&#[trigger] v@[i],), true), forall|i: int| r <= i < v@.len() ==> call_ensures(pred, (&#[trigger] v@[i],), false);
pub assume_specification<T, A: core::alloc::Allocator>[VecDeque::<T, A>::front](v: &VecDeque<T, A>) -> (r: Option<&T>)
    ensures r == (if v@.len() > 0 { Some(&v@[0]) } else { None::<&T> });
pub assume_specification<T, A: core::alloc::Allocator>[VecDeque::<T, A>::back](v: &VecDeque<T, A>) -> (r: Option<&T>)
    ensures r == (if v@.len() > 0 { Some(&v@[v@.len() - 1]) } else { None::<&T> });
pub assume_specification<T, A: core::alloc::Allocator>[VecDeque::<T, A>::get](v: &VecDeque<T, A>, index: usize) -> (r: Option<&T>)
    ensures r == (if index < v@.len() { Some(&v@[index as int]) } else { None::<&T> });
// R-ITER: `v.iter().take_while(|&&idx| idx < len).count()` — the length of the longest prefix whose items are all below `len`
#[verifier::external_body]
pub fn count_while_less(v: &VecDeque<usize>, len: usize) -> (r: usize)
    ensures r <= v@.len(), forall|i: int| 0 <= i < r ==> v@[i] < len, r < v@.len() ==> v@[r as int] >= len,
{ unimplemented!() }
