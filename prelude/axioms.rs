// `Clone` returns an equal value (trusted base §3.4(2)).
pub broadcast axiom fn axiom_clone_eq<T: Clone>(a: T, b: T)
    requires #[trigger] call_ensures(T::clone, (&a,), b)
    ensures a == b;
