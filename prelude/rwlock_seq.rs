// R-LOCK (state unit): std::sync::RwLock<M> in a sequential execution — read()/write()/get_mut() hand out the
// protected value. Erases interior mutability: everything about concurrent access is NOT decided (DESIGN.md §3.3 R-LOCK).
// The ghost counter `acq` counts lock acquisitions (read or write), so that a contract can say "the decision and the
// registration happen inside ONE critical section" (= exactly one acquisition); get_mut needs exclusive access and
// does not lock.
pub struct RwLock<M> { pub inner: M, pub acq: Ghost<nat> }
impl<M> RwLock<M> {
    pub fn write(&mut self) -> (r: Result<&mut M, ()>)
        ensures r is Ok, *r->Ok_0 == old(self).inner, *final(r->Ok_0) == final(self).inner, final(self).acq@ == old(self).acq@ + 1
    {
        proof { self.acq = Ghost((self.acq@ + 1) as nat); }
        Ok(&mut self.inner)
    }
    pub fn read(&mut self) -> (r: Result<&M, ()>)
        ensures r is Ok, *r->Ok_0 == old(self).inner, final(self).inner == old(self).inner, final(self).acq@ == old(self).acq@ + 1
    {
        proof { self.acq = Ghost((self.acq@ + 1) as nat); }
        Ok(&self.inner)
    }
    pub fn get_mut(&mut self) -> (r: Result<&mut M, ()>)
        ensures r is Ok, *r->Ok_0 == old(self).inner, *final(r->Ok_0) == final(self).inner, final(self).acq@ == old(self).acq@
    { Ok(&mut self.inner) }
}
impl<M: Default> Default for RwLock<M> {
    fn default() -> (r: Self) ensures call_ensures(M::default, (), r.inner), r.acq@ == 0 { Self { inner: M::default(), acq: Ghost(0) } }
}
