// R-LOCK (state unit): std::sync::RwLock<M> in a sequential execution — read() gives &M, write()/get_mut() give &mut M.
// Erases interior mutability: everything about concurrent access is NOT decided (DESIGN.md §3.3 R-LOCK).
pub struct RwLock<M> { pub inner: M }
impl<M> RwLock<M> {
    pub fn write(&mut self) -> (r: Result<&mut M, ()>)
        ensures r is Ok, *r->Ok_0 == old(self).inner, *final(r->Ok_0) == final(self).inner
    { Ok(&mut self.inner) }
    pub fn read(&self) -> (r: Result<&M, ()>) ensures r is Ok, *r->Ok_0 == self.inner { Ok(&self.inner) }
    pub fn get_mut(&mut self) -> (r: Result<&mut M, ()>)
        ensures r is Ok, *r->Ok_0 == old(self).inner, *final(r->Ok_0) == final(self).inner
    { Ok(&mut self.inner) }
}
impl<M: Default> Default for RwLock<M> {
    fn default() -> (r: Self) ensures call_ensures(M::default, (), r.inner) { Self { inner: M::default() } }
}
