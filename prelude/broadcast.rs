// Stand-in for tokio::sync::broadcast::{Sender, Receiver}. ASSUMED CONTRACT ON A DEPENDENCY:
// `send` appends the message to the log seen by every live receiver iff there is at least one receiver;
// a receiver created by `subscribe` is positioned at the end of the log. (R-LOCK: send/subscribe take &mut self.)
#[verifier::external_body]
#[verifier::accept_recursive_types(M)]
pub struct Sender<M> { p: std::marker::PhantomData<M> }
#[verifier::external_body]
#[verifier::accept_recursive_types(M)]
pub struct Receiver<M> { p: std::marker::PhantomData<M> }
impl<M> Sender<M> {
    pub uninterp spec fn log(&self) -> Seq<M>;
    pub uninterp spec fn receivers(&self) -> nat;
    #[verifier::external_body]
    pub fn receiver_count(&self) -> (r: usize) ensures r == self.receivers() { unimplemented!() }
    #[verifier::external_body]
    pub fn send(&mut self, m: M) -> (r: Result<usize, ()>)
        ensures final(self).receivers() == old(self).receivers(),
            old(self).receivers() > 0 ==> final(self).log() == old(self).log().push(m) && r == Ok::<usize, ()>(old(self).receivers() as usize),
            old(self).receivers() == 0 ==> final(self).log() == old(self).log() && r is Err,
    { unimplemented!() }
    #[verifier::external_body]
    pub fn subscribe(&mut self) -> (r: Receiver<M>)
        ensures final(self).receivers() == old(self).receivers() + 1, final(self).log() == old(self).log(),
            r.start() == old(self).log().len(), r.queue().len() == 0, !r.lagged(), !r.closed(),
    { unimplemented!() }
}
impl<M> Receiver<M> {
    /// index in the sender's log at which this receiver was created
    pub uninterp spec fn start(&self) -> nat;
    /// messages sent since and not yet received that are still retained by the channel
    pub uninterp spec fn queue(&self) -> Seq<M>;
    /// the receiver missed messages (fell behind by more than the capacity); the next recv reports Lagged once
    pub uninterp spec fn lagged(&self) -> bool;
    /// every sender is gone
    pub uninterp spec fn closed(&self) -> bool;
}
