// Stand-ins for std::sync::{Arc, Weak} and readlock::{Shared, SharedReadLock, SharedReadGuard} in a SEQUENTIAL execution
// (R-LOCK): a handle gives access to its pointee, `strong()/weak()` are the counts at the moment of the call, `alloc()`
// identifies the allocation. DerefMut on the stand-in is what "a &self method that takes the write lock behaves like
// &mut self" means in text. ASSUMED CONTRACTS; aliasing between handles and everything concurrent is NOT modelled.
#[verifier::external_body]
#[verifier::accept_recursive_types(X)]
pub struct Arc<X> { p: std::marker::PhantomData<X> }
#[verifier::external_body]
#[verifier::accept_recursive_types(X)]
pub struct Weak<X> { p: std::marker::PhantomData<X> }
impl<X> Arc<X> {
    pub uninterp spec fn pointee(&self) -> X;
    pub uninterp spec fn alloc(&self) -> int;
    pub uninterp spec fn strong(&self) -> nat;
    pub uninterp spec fn weak(&self) -> nat;
    #[verifier::external_body]
    pub fn new(x: X) -> (r: Self) ensures r.pointee() == x, r.strong() == 1, r.weak() == 0 { unimplemented!() }
    #[verifier::external_body]
    pub fn strong_count(this: &Self) -> (r: usize) ensures r == this.strong(), r >= 1 { unimplemented!() }
    #[verifier::external_body]
    pub fn weak_count(this: &Self) -> (r: usize) ensures r == this.weak() { unimplemented!() }
    #[verifier::external_body]
    pub fn clone(this: &Self) -> (r: Self) ensures r.alloc() == this.alloc(), r.pointee() == this.pointee() { unimplemented!() }
    #[verifier::external_body]
    pub fn downgrade(this: &Self) -> (r: Weak<X>) ensures r.alloc() == this.alloc() { unimplemented!() }
}
impl<X: Default> Default for Arc<X> {
    // a NEW allocation: nobody else holds a handle on it
    #[verifier::external_body]
    fn default() -> (r: Self) ensures r.strong() == 1, r.weak() == 0, r.fresh() { unimplemented!() }
}
impl<X> Arc<X> {
    /// the allocation was created by this very call (no other handle, strong or weak, can refer to it)
    pub uninterp spec fn fresh(&self) -> bool;
    // Arc::into_inner: Some for exactly the handle that was the last strong one (sequentially: iff the count is 1)
    #[verifier::external_body]
    pub fn into_inner(this: Self) -> (r: Option<X>)
        ensures r is Some == (this.strong() == 1), r is Some ==> r->Some_0 == this.pointee()
    { unimplemented!() }
    // Arc::get_mut: Some iff this is the only handle of any kind
    #[verifier::external_body]
    pub fn get_mut(this: &mut Self) -> (r: Option<&mut X>)
        ensures r is Some == (old(this).strong() == 1 && old(this).weak() == 0), final(this).alloc() == old(this).alloc(), final(this).strong() == old(this).strong(), final(this).weak() == old(this).weak()
    { unimplemented!() }
}
impl<X> Clone for Arc<X> {
    #[verifier::external_body]
    fn clone(&self) -> (r: Self) ensures r.alloc() == self.alloc(), r.pointee() == self.pointee() { unimplemented!() }
}
impl<X> std::ops::Deref for Arc<X> {
    type Target = X;
    #[verifier::external_body]
    fn deref(&self) -> (r: &X) ensures *r == self.pointee() { unimplemented!() }
}
impl<X> std::ops::DerefMut for Arc<X> {
    #[verifier::external_body]
    fn deref_mut(&mut self) -> (r: &mut X)
        ensures *r == old(self).pointee(), *final(r) == final(self).pointee(),
            final(self).alloc() == old(self).alloc(), final(self).strong() == old(self).strong(), final(self).weak() == old(self).weak()
    { unimplemented!() }
}
impl<X> Weak<X> {
    pub uninterp spec fn alloc(&self) -> int;
    /// at least one strong handle on the allocation is alive
    pub uninterp spec fn alive(&self) -> bool;
    pub uninterp spec fn target(&self) -> X;
    #[verifier::external_body]
    pub fn upgrade(this: &Self) -> (r: Option<Arc<X>>)
        ensures r is Some == this.alive(), r is Some ==> r->Some_0.alloc() == this.alloc() && r->Some_0.pointee() == this.target()
    { unimplemented!() }
}
impl<X> Clone for Weak<X> {
    #[verifier::external_body]
    fn clone(&self) -> (r: Self) ensures r.alloc() == self.alloc(), r.alive() == self.alive(), r.target() == self.target() { unimplemented!() }
}
