// PartialEq::ne / ::eq and the hash helper are deterministic functions of the values (trusted base §3.4(2)); eq is the
// inverse of ne (PartialEq law), so that a refactoring from `a != b` to `!(a == b)` is not an alarm.
pub uninterp spec fn spec_ne<T>(a: T, b: T) -> bool;
pub broadcast axiom fn axiom_ne<T: PartialEq>(a: T, b: T, r: bool)
    requires #[trigger] call_ensures(<T as PartialEq>::ne, (&a, &b), r)
    ensures r == spec_ne(a, b);
pub broadcast axiom fn axiom_eq<T: PartialEq>(a: T, b: T, r: bool)
    requires #[trigger] call_ensures(<T as PartialEq>::eq, (&a, &b), r)
    ensures r == !spec_ne(a, b);
pub uninterp spec fn spec_hash<T>(v: T) -> u64;
