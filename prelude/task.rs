// Stand-ins for std::task::{Waker, Context, Poll} and for the waker list (a Vec with `drain(..)`). ASSUMED CONTRACTS.
#[verifier::external_body]
pub struct Waker { id: u64 }
impl Waker {
    #[verifier::external_body]
    pub fn wake(self) { unimplemented!() }
}
impl Clone for Waker {
    #[verifier::external_body]
    fn clone(&self) -> (r: Self) ensures r == *self { unimplemented!() }
}
#[verifier::external_body]
pub struct Context<'a> { w: &'a Waker }
impl<'a> Context<'a> {
    pub uninterp spec fn spec_waker(&self) -> Waker;
    #[verifier::external_body]
    pub fn waker(&self) -> (r: &Waker) ensures *r == self.spec_waker() { unimplemented!() }
}
pub enum Poll<T> { Ready(T), Pending }
impl<T> Poll<T> {
    pub fn is_pending(&self) -> (r: bool) ensures r == (*self is Pending) { match self { Poll::Pending => true, _ => false } }
    pub fn is_ready(&self) -> (r: bool) ensures r == (*self is Ready) { match self { Poll::Ready(_) => true, _ => false } }
}

