// Stand-ins behind the rewrites R-RETAIN and R-FMLOOP (unit filter). ASSUMED: imbl::Vector::retain evaluates the predicate on
// every item once, front to back, and keeps exactly the accepted ones; `v.into_iter().filter_map(f).collect::<Vector<_>>()`
// takes the items front to back, calls f once on each and pushes the `Some` results at the back (compared by depcheck).
#[verifier::external_body]
pub struct RetainMask { p: std::marker::PhantomData<bool> }
impl View for RetainMask { type V = Seq<bool>; uninterp spec fn view(&self) -> Seq<bool>; }
impl RetainMask {
    #[verifier::external_body]
    pub fn new() -> (r: Self) ensures r@ == Seq::<bool>::empty() { unimplemented!() }
    #[verifier::external_body]
    pub fn push(&mut self, b: bool) ensures final(self)@ == old(self)@.push(b) { unimplemented!() }
}
// the items of `s` whose flag in `m` is set, in order
pub open spec fn mask_filter<T>(s: Seq<T>, m: Seq<bool>) -> Seq<T>
    decreases s.len()
{
    if s.len() == 0 || m.len() != s.len() { Seq::empty() } else {
        let r = mask_filter(s.drop_last(), m.drop_last());
        if m.last() { r.push(s.last()) } else { r }
    }
}
// base + j for every j whose flag is set, ascending
pub open spec fn mask_positions(m: Seq<bool>, base: int) -> Seq<usize>
    decreases m.len()
{
    if m.len() == 0 { Seq::empty() } else {
        let r = mask_positions(m.drop_last(), base);
        if m.last() { r.push((base + m.len() - 1) as usize) } else { r }
    }
}
impl<T: Clone> Vector<T> {
    #[verifier::external_body]
    pub fn nth_ref(&self, i: usize) -> (r: &T) requires i < self@.len() ensures *r == self@[i as int] { unimplemented!() }
    #[verifier::external_body]
    pub fn retain_mask(&mut self, m: RetainMask) requires m@.len() == old(self)@.len() ensures final(self)@ == mask_filter(old(self)@, m@) { unimplemented!() }
}
impl<A> SeqIt<A> {
    #[verifier::external_body]
    pub fn is_done(&self) -> (r: bool) ensures r == (self@.len() == 0) { unimplemented!() }
    #[verifier::external_body]
    pub fn take_next(&mut self) -> (r: A) requires old(self)@.len() > 0 ensures r == old(self)@[0], final(self)@ == old(self)@.subrange(1, old(self)@.len() as int) { unimplemented!() }
}
