// R-LOCK + R-AWAIT (async-lock handle units): tokio::sync::RwLock<S> reached through a handle, in histories in which
// the lock is free when it is requested: read()/write() (after the erased `.await`) hand out the protected state.
// Lock waiting, fairness and wake-on-release are tokio's and are NOT decided here (bounded: `obs-held`).
pub struct RwLock<S> { pub inner: S }
impl<S> RwLock<S> {
    pub fn new(s: S) -> (r: Self) ensures r.inner == s { RwLock { inner: s } }
    pub fn write(&mut self) -> (r: &mut S)
        ensures *r == old(self).inner, *final(r) == final(self).inner
    { &mut self.inner }
    pub fn read(&mut self) -> (r: &mut S)
        ensures *r == old(self).inner, *final(r) == final(self).inner
    { &mut self.inner }
}
