// Library lemmas about apply_all (proved by Verus on every run; they do not depend on /repo).
pub broadcast proof fn lemma_apply_empty<T>(s: Seq<T>)
    ensures #[trigger] apply_all(Seq::<VectorDiff<T>>::empty(), s) == s,
{}
pub broadcast proof fn lemma_applicable_empty<T>(s: Seq<T>)
    ensures #[trigger] all_applicable(Seq::<VectorDiff<T>>::empty(), s),
{}
pub broadcast proof fn lemma_emittable_empty<T>(s: Seq<T>)
    ensures #[trigger] all_emittable(Seq::<VectorDiff<T>>::empty(), s),
{}
pub broadcast proof fn lemma_apply_push<T>(ds: Seq<VectorDiff<T>>, d: VectorDiff<T>, s: Seq<T>)
    ensures #[trigger] apply_all(ds.push(d), s) == apply(d, apply_all(ds, s)),
{
    assert(ds.push(d).drop_last() =~= ds);
}
pub broadcast proof fn lemma_applicable_push<T>(ds: Seq<VectorDiff<T>>, d: VectorDiff<T>, s: Seq<T>)
    ensures #[trigger] all_applicable(ds.push(d), s) == (all_applicable(ds, s) && applicable(d, apply_all(ds, s))),
{
    assert(ds.push(d).drop_last() =~= ds);
}
pub broadcast proof fn lemma_emittable_push<T>(ds: Seq<VectorDiff<T>>, d: VectorDiff<T>, s: Seq<T>)
    ensures #[trigger] all_emittable(ds.push(d), s) == (all_emittable(ds, s) && emittable(d, apply_all(ds, s))),
{
    assert(ds.push(d).drop_last() =~= ds);
}
pub proof fn lemma_emittable_implies_applicable<T>(ds: Seq<VectorDiff<T>>, s: Seq<T>)
    requires all_emittable(ds, s),
    ensures all_applicable(ds, s),
    decreases ds.len(),
{
    if ds.len() > 0 { lemma_emittable_implies_applicable(ds.drop_last(), s); }
}
pub broadcast proof fn lemma_rep_pop_front<T>(k: nat, s: Seq<T>)
    requires k <= s.len(),
    ensures #[trigger] apply_all(rep(VectorDiff::<T>::PopFront, k), s) == s.subrange(k as int, s.len() as int),
        all_applicable(rep(VectorDiff::<T>::PopFront, k), s),
        all_emittable(rep(VectorDiff::<T>::PopFront, k), s),
    decreases k,
{
    if k == 0 {
        assert(s.subrange(0, s.len() as int) =~= s);
    } else {
        lemma_rep_pop_front::<T>((k - 1) as nat, s);
        let r = rep(VectorDiff::<T>::PopFront, k);
        assert(r.drop_last() =~= rep(VectorDiff::<T>::PopFront, (k - 1) as nat));
        let mid = s.subrange(k - 1, s.len() as int);
        assert(mid.subrange(1, mid.len() as int) =~= s.subrange(k as int, s.len() as int));
    }
}
pub broadcast proof fn lemma_rep_pop_front_applicable<T>(k: nat, s: Seq<T>)
    requires k <= s.len(),
    ensures #[trigger] all_applicable(rep(VectorDiff::<T>::PopFront, k), s),
{
    lemma_rep_pop_front::<T>(k, s);
}
pub broadcast proof fn lemma_rep_pop_front_emittable<T>(k: nat, s: Seq<T>)
    requires k <= s.len(),
    ensures #[trigger] all_emittable(rep(VectorDiff::<T>::PopFront, k), s),
{
    lemma_rep_pop_front::<T>(k, s);
}
pub broadcast proof fn lemma_rep_pop_back<T>(k: nat, s: Seq<T>)
    requires k <= s.len(),
    ensures #[trigger] apply_all(rep(VectorDiff::<T>::PopBack, k), s) == s.subrange(0, s.len() - k),
        all_applicable(rep(VectorDiff::<T>::PopBack, k), s),
        all_emittable(rep(VectorDiff::<T>::PopBack, k), s),
    decreases k,
{
    if k == 0 {
        assert(s.subrange(0, s.len() as int) =~= s);
    } else {
        lemma_rep_pop_back::<T>((k - 1) as nat, s);
        let r = rep(VectorDiff::<T>::PopBack, k);
        assert(r.drop_last() =~= rep(VectorDiff::<T>::PopBack, (k - 1) as nat));
        let mid = s.subrange(0, s.len() - (k - 1));
        assert(mid.subrange(0, mid.len() - 1) =~= s.subrange(0, s.len() - k));
    }
}
pub broadcast proof fn lemma_rep_pop_back_applicable<T>(k: nat, s: Seq<T>)
    requires k <= s.len(),
    ensures #[trigger] all_applicable(rep(VectorDiff::<T>::PopBack, k), s),
{
    lemma_rep_pop_back::<T>(k, s);
}
pub broadcast proof fn lemma_rep_pop_back_emittable<T>(k: nat, s: Seq<T>)
    requires k <= s.len(),
    ensures #[trigger] all_emittable(rep(VectorDiff::<T>::PopBack, k), s),
{
    lemma_rep_pop_back::<T>(k, s);
}
pub open spec fn push_fronts<T>(items: Seq<T>) -> Seq<VectorDiff<T>> { Seq::new(items.len(), |i: int| VectorDiff::PushFront { value: items[i] }) }
pub proof fn lemma_add_push_fronts<T>(ds: Seq<VectorDiff<T>>, items: Seq<T>, s: Seq<T>)
    ensures apply_all(ds + push_fronts(items), s) == items.reverse() + apply_all(ds, s),
        all_applicable(ds + push_fronts(items), s) == all_applicable(ds, s),
        all_emittable(ds + push_fronts(items), s) == all_emittable(ds, s),
    decreases items.len(),
{
    if items.len() == 0 {
        assert(ds + push_fronts(items) =~= ds);
        assert(items.reverse() + apply_all(ds, s) =~= apply_all(ds, s));
    } else {
        let it0 = items.drop_last();
        lemma_add_push_fronts(ds, it0, s);
        let all = ds + push_fronts(items);
        assert(all.drop_last() =~= ds + push_fronts(it0));
        assert(all.last() == VectorDiff::PushFront { value: items.last() });
        assert(seq![items.last()] + (it0.reverse() + apply_all(ds, s)) =~= items.reverse() + apply_all(ds, s));
    }
}
pub open spec fn all_push_front<T>(m: Seq<VectorDiff<T>>) -> bool { forall|i: int| 0 <= i < m.len() ==> #[trigger] m[i] is PushFront }
pub open spec fn unpush<T>(m: Seq<VectorDiff<T>>) -> Seq<T> { Seq::new(m.len(), |i: int| m[i]->PushFront_value) }
pub broadcast proof fn lemma_add_push_fronts_b<T>(ds: Seq<VectorDiff<T>>, mapped: Seq<VectorDiff<T>>, s: Seq<T>)
    requires all_push_front(mapped),
    ensures #[trigger] apply_all(ds + mapped, s) == unpush(mapped).reverse() + apply_all(ds, s),
{
    assert(mapped =~= push_fronts(unpush(mapped)));
    lemma_add_push_fronts(ds, unpush(mapped), s);
}
pub broadcast proof fn lemma_add_push_fronts_c<T>(ds: Seq<VectorDiff<T>>, mapped: Seq<VectorDiff<T>>, s: Seq<T>)
    requires all_push_front(mapped),
    ensures #[trigger] all_applicable(ds + mapped, s) == all_applicable(ds, s),
{
    assert(mapped =~= push_fronts(unpush(mapped)));
    lemma_add_push_fronts(ds, unpush(mapped), s);
}
pub broadcast proof fn lemma_add_push_fronts_e<T>(ds: Seq<VectorDiff<T>>, mapped: Seq<VectorDiff<T>>, s: Seq<T>)
    requires all_push_front(mapped),
    ensures #[trigger] all_emittable(ds + mapped, s) == all_emittable(ds, s),
{
    assert(mapped =~= push_fronts(unpush(mapped)));
    lemma_add_push_fronts(ds, unpush(mapped), s);
}
pub broadcast proof fn lemma_empty_add<A>(x: Seq<A>)
    ensures #[trigger] (Seq::<A>::empty() + x) == x,
{
    assert(Seq::<A>::empty() + x =~= x);
}
pub broadcast proof fn lemma_prefixes_empty<T>(s: Seq<T>, b: int)
    ensures #[trigger] prefixes_bounded(Seq::<VectorDiff<T>>::empty(), s, b) == (s.len() <= b),
{}
pub broadcast proof fn lemma_prefixes_push<T>(ds: Seq<VectorDiff<T>>, d: VectorDiff<T>, s: Seq<T>, b: int)
    ensures #[trigger] prefixes_bounded(ds.push(d), s, b) == (prefixes_bounded(ds, s, b) && apply(d, apply_all(ds, s)).len() <= b),
{
    assert(ds.push(d).drop_last() =~= ds);
}
// the recursive definition says what C15 says: every prefix stays within the bound
pub proof fn lemma_prefixes_bounded_forall<T>(ds: Seq<VectorDiff<T>>, s: Seq<T>, b: int)
    ensures prefixes_bounded(ds, s, b) <==> (forall|k: int| 0 <= k <= ds.len() ==> (#[trigger] apply_all(ds.subrange(0, k), s)).len() <= b),
    decreases ds.len(),
{
    if ds.len() == 0 {
        assert(ds.subrange(0, 0) =~= ds);
    } else {
        let d0 = ds.drop_last();
        lemma_prefixes_bounded_forall(d0, s, b);
        assert(ds.subrange(0, ds.len() as int) =~= ds);
        assert forall|k: int| 0 <= k <= d0.len() implies d0.subrange(0, k) =~= ds.subrange(0, k) by {}
        if prefixes_bounded(ds, s, b) {
            assert forall|k: int| 0 <= k <= ds.len() implies (#[trigger] apply_all(ds.subrange(0, k), s)).len() <= b by {
                if k < ds.len() { assert(d0.subrange(0, k) =~= ds.subrange(0, k)); }
            }
        }
        if (forall|k: int| 0 <= k <= ds.len() ==> (#[trigger] apply_all(ds.subrange(0, k), s)).len() <= b) {
            assert forall|k: int| 0 <= k <= d0.len() implies (#[trigger] apply_all(d0.subrange(0, k), s)).len() <= b by {
                assert(d0.subrange(0, k) =~= ds.subrange(0, k));
            }
        }
    }
}
pub broadcast proof fn lemma_apply_len1<T>(ds: Seq<VectorDiff<T>>, s: Seq<T>)
    requires ds.len() == 1,
    ensures #[trigger] apply_all(ds, s) == apply(ds[0], s),
{
    reveal_with_fuel(apply_all, 2);
    assert(ds.drop_last() =~= Seq::<VectorDiff<T>>::empty());
}
pub broadcast proof fn lemma_applicable_len1<T>(ds: Seq<VectorDiff<T>>, s: Seq<T>)
    requires ds.len() == 1,
    ensures #[trigger] all_applicable(ds, s) == applicable(ds[0], s),
{
    reveal_with_fuel(apply_all, 2); reveal_with_fuel(all_applicable, 2);
    assert(ds.drop_last() =~= Seq::<VectorDiff<T>>::empty());
}
pub broadcast proof fn lemma_emittable_len1<T>(ds: Seq<VectorDiff<T>>, s: Seq<T>)
    requires ds.len() == 1,
    ensures #[trigger] all_emittable(ds, s) == emittable(ds[0], s),
{
    reveal_with_fuel(apply_all, 2); reveal_with_fuel(all_emittable, 2);
    assert(ds.drop_last() =~= Seq::<VectorDiff<T>>::empty());
}
pub broadcast proof fn lemma_push_fronts_only<T>(mapped: Seq<VectorDiff<T>>, s: Seq<T>)
    requires all_push_front(mapped),
    ensures #[trigger] apply_all(mapped, s) == unpush(mapped).reverse() + s,
{
    assert(Seq::<VectorDiff<T>>::empty() + mapped =~= mapped);
    lemma_add_push_fronts_b(Seq::<VectorDiff<T>>::empty(), mapped, s);
}
pub broadcast proof fn lemma_push_fronts_only_c<T>(mapped: Seq<VectorDiff<T>>, s: Seq<T>)
    requires all_push_front(mapped),
    ensures #[trigger] all_applicable(mapped, s),
{
    assert(Seq::<VectorDiff<T>>::empty() + mapped =~= mapped);
    lemma_add_push_fronts_c(Seq::<VectorDiff<T>>::empty(), mapped, s);
}
pub broadcast proof fn lemma_push_fronts_only_e<T>(mapped: Seq<VectorDiff<T>>, s: Seq<T>)
    requires all_push_front(mapped),
    ensures #[trigger] all_emittable(mapped, s),
{
    assert(Seq::<VectorDiff<T>>::empty() + mapped =~= mapped);
    lemma_add_push_fronts_e(Seq::<VectorDiff<T>>::empty(), mapped, s);
}
pub broadcast proof fn lemma_prefixes_rep_pop_front<T>(k: nat, s: Seq<T>, b: int)
    requires k <= s.len(), s.len() <= b,
    ensures #[trigger] prefixes_bounded(rep(VectorDiff::<T>::PopFront, k), s, b),
    decreases k,
{
    if k > 0 {
        lemma_prefixes_rep_pop_front::<T>((k - 1) as nat, s, b);
        let r = rep(VectorDiff::<T>::PopFront, k);
        assert(r.drop_last() =~= rep(VectorDiff::<T>::PopFront, (k - 1) as nat));
        lemma_rep_pop_front::<T>(k, s);
    }
}
pub broadcast proof fn lemma_prefixes_rep_pop_back<T>(k: nat, s: Seq<T>, b: int)
    requires k <= s.len(), s.len() <= b,
    ensures #[trigger] prefixes_bounded(rep(VectorDiff::<T>::PopBack, k), s, b),
    decreases k,
{
    if k > 0 {
        lemma_prefixes_rep_pop_back::<T>((k - 1) as nat, s, b);
        let r = rep(VectorDiff::<T>::PopBack, k);
        assert(r.drop_last() =~= rep(VectorDiff::<T>::PopBack, (k - 1) as nat));
        lemma_rep_pop_back::<T>(k, s);
    }
}
pub proof fn lemma_prefixes_add_push_fronts<T>(ds: Seq<VectorDiff<T>>, items: Seq<T>, s: Seq<T>, b: int)
    requires prefixes_bounded(ds, s, b), apply_all(ds, s).len() + items.len() <= b,
    ensures prefixes_bounded(ds + push_fronts(items), s, b),
    decreases items.len(),
{
    if items.len() == 0 {
        assert(ds + push_fronts(items) =~= ds);
    } else {
        let it0 = items.drop_last();
        lemma_prefixes_add_push_fronts(ds, it0, s, b);
        let all = ds + push_fronts(items);
        assert(all.drop_last() =~= ds + push_fronts(it0));
        lemma_add_push_fronts(ds, items, s);
    }
}
pub broadcast proof fn lemma_prefixes_add_push_fronts_b<T>(ds: Seq<VectorDiff<T>>, mapped: Seq<VectorDiff<T>>, s: Seq<T>, b: int)
    requires all_push_front(mapped), prefixes_bounded(ds, s, b), apply_all(ds, s).len() + mapped.len() <= b,
    ensures #[trigger] prefixes_bounded(ds + mapped, s, b),
{
    assert(mapped =~= push_fronts(unpush(mapped)));
    lemma_prefixes_add_push_fronts(ds, unpush(mapped), s, b);
}
// a queue of diffs seen from its front: the first is applied first (apply_all / all_applicable / all_emittable recurse from the back)
pub proof fn lemma_queue_front<T>(q: Seq<VectorDiff<T>>, d: VectorDiff<T>, rest: Seq<VectorDiff<T>>, v: Seq<T>)
    requires q =~= seq![d] + rest
    ensures apply_all(q, v) == apply_all(rest, apply(d, v)),
        all_emittable(q, v) == (emittable(d, v) && all_emittable(rest, apply(d, v))),
        all_applicable(q, v) == (applicable(d, v) && all_applicable(rest, apply(d, v)))
    decreases rest.len()
{
    let e = Seq::<VectorDiff<T>>::empty();
    let v1 = apply(d, v);
    assert(apply_all(q, v) == apply(q.last(), apply_all(q.drop_last(), v)));
    assert(all_emittable(q, v) == (all_emittable(q.drop_last(), v) && emittable(q.last(), apply_all(q.drop_last(), v))));
    assert(all_applicable(q, v) == (all_applicable(q.drop_last(), v) && applicable(q.last(), apply_all(q.drop_last(), v))));
    if rest.len() == 0 {
        assert(q.drop_last() =~= e);
        assert(q.last() == d);
        assert(apply_all(e, v) == v && all_emittable(e, v) && all_applicable(e, v));
        assert(apply_all(rest, v1) == v1 && all_emittable(rest, v1) && all_applicable(rest, v1));
    } else {
        lemma_queue_front(q.drop_last(), d, rest.drop_last(), v);
        assert(q.last() == rest.last());
        assert(apply_all(rest, v1) == apply(rest.last(), apply_all(rest.drop_last(), v1)));
        assert(all_emittable(rest, v1) == (all_emittable(rest.drop_last(), v1) && emittable(rest.last(), apply_all(rest.drop_last(), v1))));
        assert(all_applicable(rest, v1) == (all_applicable(rest.drop_last(), v1) && applicable(rest.last(), apply_all(rest.drop_last(), v1))));
    }
}
// the same for the bound on every prefix (C15): the state before the first diff counts, then the rest from the next state
pub proof fn lemma_prefixes_front<T>(q: Seq<VectorDiff<T>>, d: VectorDiff<T>, rest: Seq<VectorDiff<T>>, v: Seq<T>, b: int)
    requires q =~= seq![d] + rest
    ensures prefixes_bounded(q, v, b) == (v.len() <= b && prefixes_bounded(rest, apply(d, v), b))
    decreases rest.len()
{
    let e = Seq::<VectorDiff<T>>::empty();
    let v1 = apply(d, v);
    lemma_queue_front(q, d, rest, v);
    assert(prefixes_bounded(q, v, b) == (prefixes_bounded(q.drop_last(), v, b) && apply_all(q, v).len() <= b));
    if rest.len() == 0 {
        assert(q.drop_last() =~= e);
        assert(prefixes_bounded(e, v, b) == (v.len() <= b));
        assert(prefixes_bounded(rest, v1, b) == (v1.len() <= b));
        assert(apply_all(rest, v1) == v1);
    } else {
        lemma_prefixes_front(q.drop_last(), d, rest.drop_last(), v, b);
        assert(prefixes_bounded(rest, v1, b) == (prefixes_bounded(rest.drop_last(), v1, b) && apply_all(rest, v1).len() <= b));
    }
}
pub proof fn lemma_prefixes_first<T>(q: Seq<VectorDiff<T>>, v: Seq<T>, b: int)
    requires prefixes_bounded(q, v, b)
    ensures v.len() <= b
    decreases q.len()
{
    if q.len() > 0 { lemma_prefixes_first(q.drop_last(), v, b); }
}
pub broadcast group diff_lemmas {
    lemma_apply_len1, lemma_applicable_len1, lemma_emittable_len1, lemma_push_fronts_only, lemma_push_fronts_only_c, lemma_push_fronts_only_e,
    lemma_prefixes_rep_pop_front, lemma_prefixes_rep_pop_back, lemma_prefixes_add_push_fronts_b,
    lemma_prefixes_empty, lemma_prefixes_push,
    lemma_apply_empty, lemma_applicable_empty, lemma_emittable_empty, lemma_apply_push, lemma_applicable_push, lemma_emittable_push,
    lemma_rep_pop_front, lemma_rep_pop_front_applicable, lemma_rep_pop_front_emittable,
    lemma_rep_pop_back, lemma_rep_pop_back_applicable, lemma_rep_pop_back_emittable,
    lemma_add_push_fronts_b, lemma_add_push_fronts_c, lemma_add_push_fronts_e, lemma_empty_add,
    Vector::axiom_len_fits,
}
