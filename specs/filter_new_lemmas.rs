// FilterMap::new: what `iter().enumerate().filter_map(…).unzip()` produced, as the kept positions and the filter-map
pub open spec fn fm_out<T, U>(fs: spec_fn(T) -> Option<U>, v: T, i: int) -> Option<(U, usize)> {
    match fs(v) { Some(m) => Some((m, i as usize)), None => None }
}
pub proof fn lemma_fm_pairs<T, U>(values: Seq<T>, fs: spec_fn(T) -> Option<U>, outs: Seq<Option<(U, usize)>>, mask: Seq<bool>)
    requires
        outs.len() == values.len(), mask.len() == values.len(),
        forall|i: int| 0 <= i < values.len() ==> #[trigger] outs[i] == fm_out(fs, values[i], i),
        forall|i: int| 0 <= i < values.len() ==> mask[i] == (#[trigger] fs(values[i]) is Some),
    ensures
        somes(outs).map_values(|p: (U, usize)| p.0) == fmap(values, fs),
        somes(outs).map_values(|p: (U, usize)| p.1) == mask_positions(mask, 0),
    decreases values.len(),
{
    if values.len() == 0 {
        assert(somes(outs).map_values(|p: (U, usize)| p.0) =~= fmap(values, fs));
        assert(somes(outs).map_values(|p: (U, usize)| p.1) =~= mask_positions(mask, 0));
    } else {
        let n = values.len() - 1;
        let v1 = values.drop_last();
        let o1 = outs.drop_last();
        let m1 = mask.drop_last();
        assert forall|i: int| 0 <= i < v1.len() implies #[trigger] o1[i] == fm_out(fs, v1[i], i) by { assert(o1[i] == outs[i]); assert(v1[i] == values[i]); }
        assert forall|i: int| 0 <= i < v1.len() implies m1[i] == (#[trigger] fs(v1[i]) is Some) by { assert(v1[i] == values[i]); }
        lemma_fm_pairs(v1, fs, o1, m1);
        assert(outs[n] == fm_out(fs, values[n], n));
        assert(mask[n] == (fs(values[n]) is Some));
        let s1 = somes(o1);
        match fs(values.last()) {
            Some(m) => {
                assert(somes(outs) == s1.push((m, n as usize)));
                assert(s1.push((m, n as usize)).map_values(|p: (U, usize)| p.0) =~= s1.map_values(|p: (U, usize)| p.0).push(m));
                assert(s1.push((m, n as usize)).map_values(|p: (U, usize)| p.1) =~= s1.map_values(|p: (U, usize)| p.1).push(n as usize));
            }
            None => { assert(somes(outs) == s1); }
        }
    }
}
pub proof fn lemma_fm_new<T, U>(values: Seq<T>, fs: spec_fn(T) -> Option<U>, outs: Seq<Option<(U, usize)>>, ix: Seq<usize>, vs: Seq<U>)
    requires
        outs.len() == values.len(), values.len() < usize::MAX,
        forall|i: int| 0 <= i < values.len() ==> #[trigger] outs[i] == fm_out(fs, values[i], i),
        vs == somes(outs).map_values(|p: (U, usize)| p.0),
        ix == somes(outs).map_values(|p: (U, usize)| p.1),
    ensures
        finv(ix, values.len() as usize, values, fs), vs == fmap(values, fs), view_of(ix, values, fs) == vs,
{
    let mask = Seq::new(values.len(), |i: int| fs(values[i]) is Some);
    lemma_fm_pairs(values, fs, outs, mask);
    assert(finv(Seq::<usize>::empty(), 0usize, Seq::<T>::empty(), fs));
    assert(Seq::<usize>::empty() + mask_positions(mask, 0) =~= mask_positions(mask, 0));
    lemma_append_steps(Seq::<usize>::empty(), ix, Seq::<T>::empty(), values, fs, mask);
    assert(Seq::<T>::empty() + values =~= values);
    assert(view_of(Seq::<usize>::empty(), Seq::<T>::empty(), fs) + fmap(values, fs) =~= fmap(values, fs));
}
