// Spec twins of VectorDiff::apply and the three view functions (vocabulary of properties C05-C15, C18).
pub open spec fn applicable<T>(d: VectorDiff<T>, s: Seq<T>) -> bool {
    match d {
        VectorDiff::Insert { index, value } => index <= s.len(),
        VectorDiff::Set { index, value } => index < s.len(),
        VectorDiff::Remove { index } => index < s.len(),
        VectorDiff::PopFront => s.len() > 0,
        VectorDiff::PopBack => s.len() > 0,
        _ => true,
    }
}
// what a well-behaved upstream may send on state s: applicable, and no Truncate beyond the length
pub open spec fn emittable<T>(d: VectorDiff<T>, s: Seq<T>) -> bool {
    applicable(d, s) && match d {
        VectorDiff::Truncate { length } => length <= s.len(),
        _ => true,
    }
}
pub open spec fn apply<T>(d: VectorDiff<T>, s: Seq<T>) -> Seq<T> {
    match d {
        VectorDiff::Append { values } => s + values@,
        VectorDiff::Clear => Seq::empty(),
        VectorDiff::PushFront { value } => seq![value] + s,
        VectorDiff::PushBack { value } => s.push(value),
        VectorDiff::PopFront => if s.len() > 0 { s.subrange(1, s.len() as int) } else { s },
        VectorDiff::PopBack => if s.len() > 0 { s.subrange(0, s.len() - 1) } else { s },
        VectorDiff::Insert { index, value } => s.insert(index as int, value),
        VectorDiff::Set { index, value } => s.update(index as int, value),
        VectorDiff::Remove { index } => s.remove(index as int),
        VectorDiff::Truncate { length } => if length < s.len() { s.subrange(0, length as int) } else { s },
        VectorDiff::Reset { values } => values@,
    }
}
pub open spec fn apply_all<T>(ds: Seq<VectorDiff<T>>, s: Seq<T>) -> Seq<T>
    decreases ds.len()
{
    if ds.len() == 0 { s } else { apply(ds.last(), apply_all(ds.drop_last(), s)) }
}
pub open spec fn all_applicable<T>(ds: Seq<VectorDiff<T>>, s: Seq<T>) -> bool
    decreases ds.len()
{
    if ds.len() == 0 { true } else { all_applicable(ds.drop_last(), s) && applicable(ds.last(), apply_all(ds.drop_last(), s)) }
}
pub open spec fn all_emittable<T>(ds: Seq<VectorDiff<T>>, s: Seq<T>) -> bool
    decreases ds.len()
{
    if ds.len() == 0 { true } else { all_emittable(ds.drop_last(), s) && emittable(ds.last(), apply_all(ds.drop_last(), s)) }
}
// every prefix of ds, applied to s, stays within `bound` items (C15); recursive form, see lemma_prefixes_bounded_forall
pub open spec fn prefixes_bounded<T>(ds: Seq<VectorDiff<T>>, s: Seq<T>, bound: int) -> bool
    decreases ds.len()
{
    if ds.len() == 0 { s.len() <= bound } else { prefixes_bounded(ds.drop_last(), s, bound) && apply_all(ds, s).len() <= bound }
}
pub open spec fn head<T>(s: Seq<T>, limit: usize) -> Seq<T> {
    if s.len() <= limit { s } else { s.subrange(0, limit as int) }
}
pub open spec fn tail<T>(s: Seq<T>, limit: usize) -> Seq<T> {
    if s.len() <= limit { s } else { s.subrange(s.len() - limit, s.len() as int) }
}
pub open spec fn skip<T>(s: Seq<T>, count: usize) -> Seq<T> {
    if s.len() <= count { Seq::empty() } else { s.subrange(count as int, s.len() as int) }
}
// the adapter's view of the world at a source step: `prev_len` was taken before applying `diff`, `new_buf` after
pub open spec fn step_pre<T>(diff: VectorDiff<T>, prev_len: usize, new_buf: Seq<T>, old_buf: Seq<T>) -> bool {
    prev_len == old_buf.len() && emittable(diff, old_buf) && new_buf == apply(diff, old_buf)
}
pub open spec fn opt_seq<A>(b: Option<A>) -> Seq<A> { match b { Some(d) => seq![d], None => Seq::empty() } }
