// Vocabulary of C10 for filter.rs: the bookkeeping (`filtered_indices`, `original_len`) against the source `orig` and the
// filter function `fs` (spec twin of the user's closure).
pub open spec fn increasing(ix: Seq<usize>) -> bool {
    forall|i: int, j: int| 0 <= i < j < ix.len() ==> ix[i] < ix[j]
}
// pure-state part of the invariant: ascending source indices below the source length
pub open spec fn fwf(ix: Seq<usize>, len: usize) -> bool {
    increasing(ix) && forall|i: int| 0 <= i < ix.len() ==> (#[trigger] ix[i]) < len
}
// `ix` lists exactly the source positions whose item passes the filter, in ascending order
pub open spec fn is_kept<T, U>(ix: Seq<usize>, orig: Seq<T>, fs: spec_fn(T) -> Option<U>) -> bool {
    &&& increasing(ix)
    &&& forall|i: int| 0 <= i < ix.len() ==> (#[trigger] ix[i]) < orig.len() && fs(orig[ix[i] as int]) is Some
    &&& forall|p: int| 0 <= p < orig.len() && fs(#[trigger] orig[p]) is Some ==> exists|i: int| 0 <= i < ix.len() && #[trigger] ix[i] == p
}
// the view the downstream has: the mapped items at the kept positions
pub open spec fn view_of<T, U>(ix: Seq<usize>, orig: Seq<T>, fs: spec_fn(T) -> Option<U>) -> Seq<U> {
    Seq::new(ix.len(), |i: int| fs(orig[ix[i] as int]).unwrap())
}
pub open spec fn finv<T, U>(ix: Seq<usize>, len: usize, orig: Seq<T>, fs: spec_fn(T) -> Option<U>) -> bool {
    len == orig.len() && orig.len() < usize::MAX && is_kept(ix, orig, fs)
}
// the user's closure is a function: it accepts every item and its result is `fs`
pub open spec fn det<T, U, F: Fn(T) -> Option<U>>(f: &F, fs: spec_fn(T) -> Option<U>) -> bool {
    (forall|v: T| call_requires(*f, (v,))) && (forall|v: T, r: Option<U>| call_ensures(*f, (v,), r) ==> r == fs(v))
}
// one step of the adapter: the bookkeeping fits the new source, and the emitted diff (or its absence) turns the old view into the new one
pub open spec fn fstep<T, U>(ix0: Seq<usize>, ix1: Seq<usize>, len1: usize, res: Option<VectorDiff<U>>, orig0: Seq<T>, orig1: Seq<T>, fs: spec_fn(T) -> Option<U>) -> bool {
    &&& finv(ix1, len1, orig1, fs)
    &&& match res {
        Some(d) => emittable(d, view_of(ix0, orig0, fs)) && apply(d, view_of(ix0, orig0, fs)) == view_of(ix1, orig1, fs),
        None => view_of(ix0, orig0, fs) == view_of(ix1, orig1, fs),
    }
}
// the property's own words: "exactly the source items that pass the filter (mapped), in source order"
pub open spec fn fmap<T, U>(orig: Seq<T>, fs: spec_fn(T) -> Option<U>) -> Seq<U>
    decreases orig.len()
{
    if orig.len() == 0 { Seq::empty() } else {
        let r = fmap(orig.drop_last(), fs);
        match fs(orig.last()) { Some(u) => r.push(u), None => r }
    }
}
// the index loops of filter.rs: items [from, upto) moved by `delta`
pub open spec fn shifted(ix: Seq<usize>, from: int, upto: int, delta: int) -> Seq<usize> {
    Seq::new(ix.len(), |i: int| if from <= i < upto { (ix[i] + delta) as usize } else { ix[i] })
}
// the bookkeeping between "drop the entry of the removed item" and "shift the later ones down"
pub open spec fn rm_mid(ix: Seq<usize>, pos: int, removed: bool) -> Seq<usize> {
    if removed { ix.remove(pos) } else { ix }
}
// `pos` is where source index `index` sits among the kept indices (what partition_point finds)
pub open spec fn is_pos(ix: Seq<usize>, index: usize, pos: int) -> bool {
    0 <= pos <= ix.len() && (forall|i: int| 0 <= i < pos ==> (#[trigger] ix[i]) < index) && (forall|i: int| pos <= i < ix.len() ==> (#[trigger] ix[i]) >= index)
}
pub open spec fn kept_at(ix: Seq<usize>, index: usize, pos: int) -> bool {
    0 <= pos < ix.len() && ix[pos] == index
}
// Filter (as opposed to FilterMap): the predicate `ps` seen as a partial identity map
pub open spec fn pfs<T>(ps: spec_fn(T) -> bool) -> spec_fn(T) -> Option<T> {
    |v: T| if ps(v) { Some(v) } else { None }
}
pub open spec fn det_pred<T, F: Fn(&T) -> bool>(f: &F, ps: spec_fn(T) -> bool) -> bool {
    (forall|v: T| call_requires(*f, (&v,))) && (forall|v: T, r: bool| call_ensures(*f, (&v,), r) ==> r == ps(v))
}
// what append_filter / append_filter_map return, as the diff their callers make of it
pub open spec fn app_res<U>(r: Option<Vector<U>>) -> Option<VectorDiff<U>> {
    match r { Some(values) => Some(VectorDiff::Append { values }), None => None }
}
// the source stays within the machine: lengths below usize::MAX after the diff
pub open spec fn fits<T>(d: VectorDiff<T>, orig: Seq<T>) -> bool {
    match d {
        VectorDiff::Append { values } => orig.len() + values@.len() < usize::MAX,
        VectorDiff::PushFront { value } => orig.len() + 1 < usize::MAX,
        VectorDiff::PushBack { value } => orig.len() + 1 < usize::MAX,
        VectorDiff::Insert { index, value } => orig.len() + 1 < usize::MAX,
        VectorDiff::Reset { values } => values@.len() < usize::MAX,
        _ => true,
    }
}
