// C18 vocabulary: what it means for `r` to be `d` mapped through the closure `f`, and the commutation lemma.
pub open spec fn no_panic<T>(d: VectorDiff<T>, s: Seq<T>) -> bool {
    match d {
        VectorDiff::Insert { index, value } => index <= s.len(),
        VectorDiff::Set { index, value } => index < s.len(),
        VectorDiff::Remove { index } => index < s.len(),
        _ => true,
    }
}
pub open spec fn seq_mapped<T, U, F: FnMut(T) -> U>(a: Seq<T>, b: Seq<U>, f: F) -> bool {
    a.len() == b.len() && forall|i: int| 0 <= i < a.len() ==> call_ensures(f, (a[i],), #[trigger] b[i])
}
pub open spec fn diff_mapped<T, U, F: FnMut(T) -> U>(d: VectorDiff<T>, r: VectorDiff<U>, f: F) -> bool {
    match d {
        VectorDiff::Append { values } => r is Append && seq_mapped(values@, r->Append_values@, f),
        VectorDiff::Clear => r is Clear,
        VectorDiff::PushFront { value } => r is PushFront && call_ensures(f, (value,), r->PushFront_value),
        VectorDiff::PushBack { value } => r is PushBack && call_ensures(f, (value,), r->PushBack_value),
        VectorDiff::PopFront => r is PopFront,
        VectorDiff::PopBack => r is PopBack,
        VectorDiff::Insert { index, value } => r is Insert && r->Insert_index == index && call_ensures(f, (value,), r->Insert_value),
        VectorDiff::Set { index, value } => r is Set && r->Set_index == index && call_ensures(f, (value,), r->Set_value),
        VectorDiff::Remove { index } => r is Remove && r->Remove_index == index,
        VectorDiff::Truncate { length } => r is Truncate && r->Truncate_length == length,
        VectorDiff::Reset { values } => r is Reset && seq_mapped(values@, r->Reset_values@, f),
    }
}
/// the closure behaves like the pure function g
pub open spec fn pure_as<T, U, F: FnMut(T) -> U>(f: F, g: spec_fn(T) -> U) -> bool {
    forall|t: T, u: U| call_ensures(f, (t,), u) ==> u == g(t)
}
/// two diffs that are equal up to the contents (views) of the vectors they carry
pub open spec fn diff_view_eq<T>(a: VectorDiff<T>, b: VectorDiff<T>) -> bool {
    match a {
        VectorDiff::Append { values } => b is Append && b->Append_values@ =~= values@,
        VectorDiff::Reset { values } => b is Reset && b->Reset_values@ =~= values@,
        _ => a == b,
    }
}
// C18: for a pure element mapping, applying the mapped diff to the mapped vector = mapping the result of the original diff
pub proof fn lemma_map_commutes_with_apply<T, U, F: FnMut(T) -> U>(d: VectorDiff<T>, r: VectorDiff<U>, f: F, g: spec_fn(T) -> U, s: Seq<T>)
    requires diff_mapped(d, r, f), pure_as(f, g), no_panic(d, s),
    ensures no_panic(r, s.map_values(g)),
        applicable(d, s) ==> applicable(r, s.map_values(g)),
        apply(r, s.map_values(g)) =~= apply(d, s).map_values(g),
{
    match d {
        VectorDiff::Append { values } => {
            let rv = r->Append_values@;
            assert(rv =~= values@.map_values(g));
        }
        VectorDiff::Reset { values } => {
            let rv = r->Reset_values@;
            assert(rv =~= values@.map_values(g));
        }
        _ => {}
    }
}
// identity mapping returns an equal diff
pub proof fn lemma_map_identity<T, F: FnMut(T) -> T>(d: VectorDiff<T>, r: VectorDiff<T>, f: F)
    requires diff_mapped(d, r, f), pure_as(f, |t: T| t),
    ensures diff_view_eq(d, r),
{
    match d {
        VectorDiff::Append { values } => { assert(r->Append_values@ =~= values@); }
        VectorDiff::Reset { values } => { assert(r->Reset_values@ =~= values@); }
        _ => {}
    }
}
