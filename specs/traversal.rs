// C17, traversal: the cursor machine whose steps are exactly the postconditions proved for entry.rs
//   offer    : ObservableVectorEntries::next   — entry at `cursor` iff cursor < len            (entry/next)
//   Keep     : drop of a Borrowed entry         — cursor + 1, contents unchanged                (entry/drop_impl)
//   Set(v)   : ObservableVectorEntry::set, drop — contents[cursor] := v, cursor + 1             (entry/entry_set, entry/drop_impl)
//   Remove   : ObservableVectorEntry::remove    — contents.remove(cursor), cursor NOT advanced  (entry/entry_remove, entry/make_owned)
//   SetRemove: set then remove                  — as Remove
// and the statement: whatever the decisions, the elements offered are the original elements, each exactly once, in
// index order; stopping early leaves the not yet offered suffix untouched.
pub enum Decision<T> { Keep, Set(T), Remove, SetRemove(T) }
pub open spec fn step_contents<T>(s: Seq<T>, c: int, d: Decision<T>) -> Seq<T> {
    match d {
        Decision::Keep => s,
        Decision::Set(v) => s.update(c, v),
        Decision::Remove => s.remove(c),
        Decision::SetRemove(v) => s.update(c, v).remove(c),
    }
}
pub open spec fn step_cursor<T>(c: int, d: Decision<T>) -> int {
    match d {
        Decision::Keep => c + 1,
        Decision::Set(v) => c + 1,
        Decision::Remove => c,
        Decision::SetRemove(v) => c,
    }
}
/// the elements handed to the caller, in order, while following the decisions `ds` from cursor `c` on contents `s`
pub open spec fn offered<T>(s: Seq<T>, c: int, ds: Seq<Decision<T>>) -> Seq<T>
    decreases ds.len()
{
    if ds.len() == 0 || c < 0 || c >= s.len() { Seq::empty() }
    else { seq![s[c]] + offered(step_contents(s, c, ds[0]), step_cursor(c, ds[0]), ds.subrange(1, ds.len() as int)) }
}
pub open spec fn final_contents<T>(s: Seq<T>, c: int, ds: Seq<Decision<T>>) -> Seq<T>
    decreases ds.len()
{
    if ds.len() == 0 || c < 0 || c >= s.len() { s }
    else { final_contents(step_contents(s, c, ds[0]), step_cursor(c, ds[0]), ds.subrange(1, ds.len() as int)) }
}
pub open spec fn final_cursor<T>(s: Seq<T>, c: int, ds: Seq<Decision<T>>) -> int
    decreases ds.len()
{
    if ds.len() == 0 || c < 0 || c >= s.len() { c }
    else { final_cursor(step_contents(s, c, ds[0]), step_cursor(c, ds[0]), ds.subrange(1, ds.len() as int)) }
}
pub open spec fn imin(a: int, b: int) -> int { if a <= b { a } else { b } }
pub proof fn lemma_traversal_visits_each_once<T>(s: Seq<T>, c: int, ds: Seq<Decision<T>>)
    requires 0 <= c <= s.len(),
    ensures
        // each original element from the cursor on is offered exactly once, in index order, for as long as decisions last
        offered(s, c, ds) =~= s.subrange(c, c + imin(ds.len() as int, s.len() - c)),
        // early exit leaves the rest untouched: the not yet offered suffix of the original is the suffix of the result
        ({ let k = imin(ds.len() as int, s.len() - c);
           let f = final_contents(s, c, ds); let fc = final_cursor(s, c, ds);
           0 <= fc <= f.len() && f.len() - fc == s.len() - c - k && f.subrange(fc, f.len() as int) =~= s.subrange(c + k, s.len() as int) }),
    decreases ds.len(),
{
    if ds.len() == 0 || c >= s.len() {
    } else {
        let s1 = step_contents(s, c, ds[0]);
        let c1 = step_cursor(c, ds[0]);
        let rest = ds.subrange(1, ds.len() as int);
        lemma_traversal_visits_each_once(s1, c1, rest);
        let k1 = imin(rest.len() as int, s1.len() - c1);
        assert(s1.subrange(c1, c1 + k1) =~= s.subrange(c + 1, c + 1 + k1));
        assert(s1.subrange(c1 + k1, s1.len() as int) =~= s.subrange(c + 1 + k1, s.len() as int));
    }
}
