// Vocabulary of C11 for sort.rs: the buffer holds the view's items in sorted order, each tagged with its index in the source.
// `ord` is the spec twin of the user's comparison; the statement "ordered according to the comparison" presupposes that the
// comparison is a function and a total preorder (Rust's `Ord` contract) — that is `lawful`.
pub open spec fn le<T>(ord: spec_fn(T, T) -> Ordering, a: T, b: T) -> bool { ord(a, b) != Ordering::Greater }
// (opaque: the laws are only needed inside the lemmas; revealed there)
#[verifier::opaque]
pub open spec fn total_preorder<T>(ord: spec_fn(T, T) -> Ordering) -> bool {
    &&& forall|a: T, b: T| (#[trigger] ord(a, b) == Ordering::Less) <==> (ord(b, a) == Ordering::Greater)
    &&& forall|a: T, b: T, c: T| #[trigger] ord(a, b) != Ordering::Greater && #[trigger] ord(b, c) != Ordering::Greater ==> ord(a, c) != Ordering::Greater
}
pub open spec fn cmp_is<T, F: Fn(&T, &T) -> Ordering>(f: F, ord: spec_fn(T, T) -> Ordering) -> bool {
    (forall|a: &T, b: &T| call_requires(f, (a, b))) && (forall|a: &T, b: &T, r: Ordering| call_ensures(f, (a, b), r) ==> r == ord(*a, *b))
}
pub open spec fn lawful<T, F: Fn(&T, &T) -> Ordering>(f: F) -> bool {
    exists|o: spec_fn(T, T) -> Ordering| #[trigger] cmp_is(f, o) && total_preorder(o)
}
// the order the comparison computes
pub open spec fn ord_of<T, F: Fn(&T, &T) -> Ordering>(f: F) -> spec_fn(T, T) -> Ordering {
    choose|o: spec_fn(T, T) -> Ordering| #[trigger] cmp_is(f, o) && total_preorder(o)
}
pub open spec fn vals<T>(buf: Seq<(usize, T)>) -> Seq<T> { Seq::new(buf.len(), |i: int| buf[i].1) }
pub open spec fn sorted<T>(buf: Seq<(usize, T)>, ord: spec_fn(T, T) -> Ordering) -> bool {
    forall|i: int, j: int| 0 <= i < j < buf.len() ==> le(ord, #[trigger] buf[i].1, #[trigger] buf[j].1)
}
// the tags are source positions, each at most once, and the item carried is the source's item at that position:
// `buf` is a rearrangement of `s` (with `buf.len() == s.len()` the tags are a bijection — lemma_tag_present)
pub open spec fn rel<T>(buf: Seq<(usize, T)>, s: Seq<T>) -> bool {
    &&& buf.len() == s.len()
    &&& forall|i: int| 0 <= i < buf.len() ==> (#[trigger] buf[i]).0 < s.len() && s[buf[i].0 as int] == buf[i].1
    &&& forall|i: int, j: int| 0 <= i < j < buf.len() ==> (#[trigger] buf[i]).0 != (#[trigger] buf[j]).0
}
pub open spec fn has_src<T>(buf: Seq<(usize, T)>) -> bool { exists|s: Seq<T>| #[trigger] rel(buf, s) }
// the source the buffer stands for
pub open spec fn src_of<T>(buf: Seq<(usize, T)>) -> Seq<T> { choose|s: Seq<T>| #[trigger] rel(buf, s) }
pub open spec fn sinv<T>(buf: Seq<(usize, T)>, s: Seq<T>, ord: spec_fn(T, T) -> Ordering) -> bool { rel(buf, s) && sorted(buf, ord) }
// one step of the adapter: the buffer is the sorted rearrangement of the new source, and the emitted diffs, applied in order to
// the old view, are applicable one by one and give the new view
pub open spec fn sstep<T>(b0: Seq<(usize, T)>, b1: Seq<(usize, T)>, res: Seq<VectorDiff<T>>, s1: Seq<T>, ord: spec_fn(T, T) -> Ordering) -> bool {
    sinv(b1, s1, ord) && all_applicable(res, vals(b0)) && apply_all(res, vals(b0)) == vals(b1)
}
// where binary search may put `nv`
pub open spec fn ins_ok<T>(buf: Seq<(usize, T)>, ord: spec_fn(T, T) -> Ordering, nv: T, idx: int) -> bool {
    0 <= idx <= buf.len() && (forall|j: int| 0 <= j < idx ==> le(ord, (#[trigger] buf[j]).1, nv)) && (forall|j: int| idx <= j < buf.len() ==> le(ord, nv, (#[trigger] buf[j]).1))
}
// tags at or above `t` moved up by one (room for a new source item at `t`)
pub open spec fn shift_up<T>(buf: Seq<(usize, T)>, t: usize) -> Seq<(usize, T)> {
    Seq::new(buf.len(), |i: int| if buf[i].0 >= t { ((buf[i].0 + 1) as usize, buf[i].1) } else { buf[i] })
}
// tags above `t` moved down by one (the source item at `t` is gone)
pub open spec fn shift_down<T>(buf: Seq<(usize, T)>, t: usize) -> Seq<(usize, T)> {
    Seq::new(buf.len(), |i: int| if buf[i].0 > t { ((buf[i].0 - 1) as usize, buf[i].1) } else { buf[i] })
}
pub open spec fn bs_index(r: Result<usize, usize>) -> usize { match r { Ok(i) => i, Err(i) => i } }
