// C10 / C13 for the batched flavour of the Filter loops: the per-diff closure is stateful (it updates the bookkeeping), so the effect
// of a batch is the chain of the per-diff steps: `ixs[i]`, `lens[i]` is the bookkeeping before `diffs[i]`, `outs[i]` what the closure
// returned for it.
pub open spec fn fsteps<T, U>(ixs: Seq<Seq<usize>>, lens: Seq<usize>, orig0: Seq<T>, diffs: Seq<VectorDiff<T>>, outs: Seq<Option<VectorDiff<U>>>, fs: spec_fn(T) -> Option<U>) -> bool {
    &&& ixs.len() == diffs.len() + 1 && lens.len() == diffs.len() + 1 && outs.len() == diffs.len()
    &&& forall|i: int| 0 <= i < diffs.len() ==> fstep(ixs[i], ixs[i + 1], lens[i + 1], #[trigger] outs[i], apply_all(diffs.subrange(0, i), orig0), apply_all(diffs.subrange(0, i + 1), orig0), fs)
}
// what the first k steps add up to: the bookkeeping fits the source after them, and the diffs that were not dropped, in order, take
// the old view to the new one, each emittable in turn
pub proof fn lemma_fsteps_view<T, U>(ixs: Seq<Seq<usize>>, lens: Seq<usize>, orig0: Seq<T>, diffs: Seq<VectorDiff<T>>, outs: Seq<Option<VectorDiff<U>>>, fs: spec_fn(T) -> Option<U>, k: int)
    requires finv(ixs[0], lens[0], orig0, fs), fsteps(ixs, lens, orig0, diffs, outs, fs), 0 <= k <= diffs.len()
    ensures finv(ixs[k], lens[k], apply_all(diffs.subrange(0, k), orig0), fs),
        all_emittable(somes(outs.subrange(0, k)), view_of(ixs[0], orig0, fs)),
        apply_all(somes(outs.subrange(0, k)), view_of(ixs[0], orig0, fs)) == view_of(ixs[k], apply_all(diffs.subrange(0, k), orig0), fs)
    decreases k
{
    let v0 = view_of(ixs[0], orig0, fs);
    let e = Seq::<VectorDiff<U>>::empty();
    if k == 0 {
        assert(diffs.subrange(0, 0) =~= Seq::<VectorDiff<T>>::empty());
        assert(outs.subrange(0, 0) =~= Seq::<Option<VectorDiff<U>>>::empty());
        assert(somes(outs.subrange(0, 0)) =~= e);
        assert(apply_all(diffs.subrange(0, 0), orig0) == orig0);
        assert(apply_all(e, v0) == v0 && all_emittable(e, v0));
    } else {
        lemma_fsteps_view(ixs, lens, orig0, diffs, outs, fs, k - 1);
        let i = k - 1;
        let o = outs[i];
        assert(fstep(ixs[i], ixs[i + 1], lens[i + 1], o, apply_all(diffs.subrange(0, i), orig0), apply_all(diffs.subrange(0, i + 1), orig0), fs));
        let ok = outs.subrange(0, k);
        assert(ok.drop_last() =~= outs.subrange(0, i));
        assert(ok.last() == o);
        let sm = somes(outs.subrange(0, i));
        if o is Some {
            let d = o->Some_0;
            assert(somes(ok) == sm.push(d));
            assert(sm.push(d).drop_last() =~= sm);
            assert(sm.push(d).last() == d);
            assert(apply_all(sm.push(d), v0) == apply(d, apply_all(sm, v0)));
            assert(all_emittable(sm.push(d), v0) == (all_emittable(sm, v0) && emittable(d, apply_all(sm, v0))));
        } else {
            assert(somes(ok) == sm);
        }
    }
}
