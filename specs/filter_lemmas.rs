// Lemmas behind the exit proofs of the filter.rs handlers (each says: this concrete change of the bookkeeping is a correct step).
pub proof fn lemma_push_back<T, U>(ix0: Seq<usize>, ix1: Seq<usize>, orig: Seq<T>, fs: spec_fn(T) -> Option<U>, value: T)
    requires
        finv(ix0, orig.len() as usize, orig, fs),
        orig.len() + 1 < usize::MAX,
        match fs(value) {
            Some(u) => ix1 == ix0.push(orig.len() as usize),
            None => ix1 == ix0,
        },
    ensures
        finv(ix1, (orig.len() + 1) as usize, orig.push(value), fs),
        match fs(value) {
            Some(u) => view_of(ix1, orig.push(value), fs) == view_of(ix0, orig, fs).push(u),
            None => view_of(ix1, orig.push(value), fs) == view_of(ix0, orig, fs),
        },
{
    let orig1 = orig.push(value);
    assert forall|p: int| 0 <= p < orig1.len() && fs(#[trigger] orig1[p]) is Some implies exists|i: int| 0 <= i < ix1.len() && #[trigger] ix1[i] == p by {
        if p < orig.len() {
            assert(orig1[p] == orig[p]);
            let i = choose|i: int| 0 <= i < ix0.len() && #[trigger] ix0[i] == p;
            assert(ix1[i] == p);
        } else {
            assert(ix1[ix0.len() as int] == p);
        }
    }
    assert forall|i: int| 0 <= i < ix1.len() implies (#[trigger] ix1[i]) < orig1.len() && fs(orig1[ix1[i] as int]) is Some by {
        if i < ix0.len() { assert(ix1[i] == ix0[i]); assert(orig1[ix0[i] as int] == orig[ix0[i] as int]); }
    }
    assert(increasing(ix1));
    let v0 = view_of(ix0, orig, fs);
    let v1 = view_of(ix1, orig1, fs);
    match fs(value) {
        Some(u) => { assert(v0.push(u) =~= v1); }
        None => { assert(v0 =~= v1); }
    }
}

pub proof fn lemma_clear<T, U>(ix0: Seq<usize>, ix1: Seq<usize>, orig: Seq<T>, fs: spec_fn(T) -> Option<U>)
    requires ix1.len() == 0,
    ensures fstep(ix0, ix1, 0, Some(VectorDiff::<U>::Clear), orig, Seq::<T>::empty(), fs),
{
    assert(view_of(ix1, Seq::<T>::empty(), fs) =~= Seq::<U>::empty());
}

#[verifier::rlimit(80)]
pub proof fn lemma_push_front<T, U>(ix0: Seq<usize>, ix1: Seq<usize>, orig: Seq<T>, fs: spec_fn(T) -> Option<U>, value: T)
    requires
        finv(ix0, orig.len() as usize, orig, fs),
        orig.len() + 1 < usize::MAX,
        match fs(value) {
            Some(u) => ix1 =~= seq![0usize] + shifted(ix0, 0, ix0.len() as int, 1),
            None => ix1 =~= shifted(ix0, 0, ix0.len() as int, 1),
        },
    ensures
        finv(ix1, (orig.len() + 1) as usize, seq![value] + orig, fs),
        match fs(value) {
            Some(u) => view_of(ix1, seq![value] + orig, fs) == seq![u] + view_of(ix0, orig, fs),
            None => view_of(ix1, seq![value] + orig, fs) == view_of(ix0, orig, fs),
        },
{
    let orig1 = seq![value] + orig;
    let off: int = if fs(value) is Some { 1 } else { 0 };
    assert forall|i: int| 0 <= i < ix0.len() implies #[trigger] ix1[i + off] == ix0[i] + 1 && orig1[ix1[i + off] as int] == orig[ix0[i] as int] by {}
    assert forall|p: int| 0 <= p < orig1.len() && fs(#[trigger] orig1[p]) is Some implies exists|i: int| 0 <= i < ix1.len() && #[trigger] ix1[i] == p by {
        if p > 0 {
            assert(orig1[p] == orig[p - 1]);
            let i = choose|i: int| 0 <= i < ix0.len() && #[trigger] ix0[i] == p - 1;
            assert(ix1[i + off] == p);
        } else {
            assert(orig1[0] == value);
            assert(ix1[0] == 0);
        }
    }
    assert forall|i: int| 0 <= i < ix1.len() implies (#[trigger] ix1[i]) < orig1.len() && fs(orig1[ix1[i] as int]) is Some by {
        if i >= off { assert(ix1[(i - off) + off] == ix0[i - off] + 1); } else { assert(orig1[0] == value); }
    }
    assert forall|i: int, j: int| 0 <= i < j < ix1.len() implies ix1[i] < ix1[j] by {
        if i >= off { assert(ix1[(i - off) + off] == ix0[i - off] + 1); }
        assert(ix1[(j - off) + off] == ix0[j - off] + 1);
    }
    let v0 = view_of(ix0, orig, fs);
    let v1 = view_of(ix1, orig1, fs);
    match fs(value) {
        Some(u) => {
            assert forall|i: int| 0 <= i < v1.len() implies v1[i] == (seq![u] + v0)[i] by {
                if i >= 1 { assert(ix1[(i - 1) + off] == ix0[i - 1] + 1); } else { assert(orig1[0] == value); }
            }
            assert(seq![u] + v0 =~= v1);
        }
        None => {
            assert forall|i: int| 0 <= i < v1.len() implies v1[i] == v0[i] by { assert(ix1[i + off] == ix0[i] + 1); }
            assert(v0 =~= v1);
        }
    }
}

// elementwise description of the bookkeeping after an insert at source index `index` (off = 1 when the new item is kept)
pub open spec fn ins_elems(ix0: Seq<usize>, ix1: Seq<usize>, index: usize, pos: int, off: int) -> bool {
    &&& ix1.len() == ix0.len() + off
    &&& forall|i: int| 0 <= i < pos ==> #[trigger] ix1[i] == ix0[i]
    &&& off == 1 ==> ix1[pos] == index
    &&& forall|i: int| pos <= i < ix0.len() ==> #[trigger] ix1[i + off] == ix0[i] + 1
}
#[verifier::rlimit(80)]
proof fn lemma_insert_kept<T, U>(ix0: Seq<usize>, ix1: Seq<usize>, orig: Seq<T>, fs: spec_fn(T) -> Option<U>, index: usize, value: T, pos: int, off: int)
    requires
        finv(ix0, orig.len() as usize, orig, fs), orig.len() + 1 < usize::MAX, index <= orig.len(), is_pos(ix0, index, pos),
        off == (if fs(value) is Some { 1int } else { 0int }),
        ins_elems(ix0, ix1, index, pos, off),
    ensures
        finv(ix1, (orig.len() + 1) as usize, orig.insert(index as int, value), fs),
{
    let orig1 = orig.insert(index as int, value);
    assert forall|p: int| 0 <= p < orig1.len() && fs(#[trigger] orig1[p]) is Some implies exists|i: int| 0 <= i < ix1.len() && #[trigger] ix1[i] == p by {
        if p < index {
            assert(orig1[p] == orig[p]);
            let i = choose|i: int| 0 <= i < ix0.len() && #[trigger] ix0[i] == p;
            assert(i < pos);
            assert(ix1[i] == p);
        } else if p == index {
            assert(orig1[p] == value);
            assert(ix1[pos] == p);
        } else {
            assert(orig1[p] == orig[p - 1]);
            let i = choose|i: int| 0 <= i < ix0.len() && #[trigger] ix0[i] == p - 1;
            assert(i >= pos);
            assert(ix1[i + off] == p);
        }
    }
    assert forall|i: int| 0 <= i < ix1.len() implies (#[trigger] ix1[i]) < orig1.len() && fs(orig1[ix1[i] as int]) is Some by {
        if i < pos { assert(ix1[i] == ix0[i]); assert(orig1[ix0[i] as int] == orig[ix0[i] as int]); }
        else if i == pos && off == 1 { assert(orig1[index as int] == value); }
        else { assert(ix1[(i - off) + off] == ix0[i - off] + 1); assert(orig1[ix0[i - off] + 1] == orig[ix0[i - off] as int]); }
    }
    assert forall|i: int, j: int| 0 <= i < j < ix1.len() implies ix1[i] < ix1[j] by {
        if i < pos { assert(ix1[i] == ix0[i]); } else if !(i == pos && off == 1) { assert(ix1[(i - off) + off] == ix0[i - off] + 1); }
        if j < pos { assert(ix1[j] == ix0[j]); } else if !(j == pos && off == 1) { assert(ix1[(j - off) + off] == ix0[j - off] + 1); }
    }
}
#[verifier::rlimit(80)]
proof fn lemma_insert_view<T, U>(ix0: Seq<usize>, ix1: Seq<usize>, orig: Seq<T>, fs: spec_fn(T) -> Option<U>, index: usize, value: T, pos: int, off: int)
    requires
        finv(ix0, orig.len() as usize, orig, fs), index <= orig.len(), is_pos(ix0, index, pos),
        off == (if fs(value) is Some { 1int } else { 0int }),
        ins_elems(ix0, ix1, index, pos, off),
    ensures
        match fs(value) {
            Some(u) => view_of(ix0, orig, fs).insert(pos, u) == view_of(ix1, orig.insert(index as int, value), fs),
            None => view_of(ix0, orig, fs) == view_of(ix1, orig.insert(index as int, value), fs),
        },
{
    let orig1 = orig.insert(index as int, value);
    let v0 = view_of(ix0, orig, fs);
    let v1 = view_of(ix1, orig1, fs);
    match fs(value) {
        Some(u) => {
            assert forall|i: int| 0 <= i < v1.len() implies v1[i] == v0.insert(pos, u)[i] by {
                if i < pos { assert(ix1[i] == ix0[i]); assert(orig1[ix0[i] as int] == orig[ix0[i] as int]); }
                else if i == pos { assert(orig1[index as int] == value); }
                else { assert(ix1[(i - 1) + off] == ix0[i - 1] + 1); assert(orig1[ix0[i - 1] + 1] == orig[ix0[i - 1] as int]); }
            }
            assert(v0.insert(pos, u) =~= v1);
        }
        None => {
            assert forall|i: int| 0 <= i < v1.len() implies v1[i] == v0[i] by {
                if i < pos { assert(ix1[i] == ix0[i]); assert(orig1[ix0[i] as int] == orig[ix0[i] as int]); }
                else { assert(ix1[i + off] == ix0[i] + 1); assert(orig1[ix0[i] + 1] == orig[ix0[i] as int]); }
            }
            assert(v0 =~= v1);
        }
    }
}
pub proof fn lemma_insert<T, U>(ix0: Seq<usize>, ix1: Seq<usize>, orig: Seq<T>, fs: spec_fn(T) -> Option<U>, index: usize, value: T, upos: usize)
    requires
        finv(ix0, orig.len() as usize, orig, fs),
        orig.len() + 1 < usize::MAX,
        index <= orig.len(),
        is_pos(ix0, index, upos as int),
        match fs(value) {
            Some(u) => ix1 =~= shifted(ix0, upos as int, ix0.len() as int, 1).insert(upos as int, index),
            None => ix1 =~= shifted(ix0, upos as int, ix0.len() as int, 1),
        },
    ensures
        finv(ix1, (orig.len() + 1) as usize, orig.insert(index as int, value), fs),
        upos <= view_of(ix0, orig, fs).len(),
        match fs(value) {
            Some(u) => view_of(ix1, orig.insert(index as int, value), fs) == view_of(ix0, orig, fs).insert(upos as int, u),
            None => view_of(ix1, orig.insert(index as int, value), fs) == view_of(ix0, orig, fs),
        },
{
    let pos = upos as int;
    let off: int = if fs(value) is Some { 1 } else { 0 };
    assert(ins_elems(ix0, ix1, index, pos, off));
    lemma_insert_kept(ix0, ix1, orig, fs, index, value, pos, off);
    lemma_insert_view(ix0, ix1, orig, fs, index, value, pos, off);
    let v0 = view_of(ix0, orig, fs);
    assert(v0.len() == ix0.len());
}

// elementwise description of the bookkeeping after the removal of source index `index` (off = 1 when that item was kept)
pub open spec fn rem_elems(ix0: Seq<usize>, ix1: Seq<usize>, pos: int, off: int) -> bool {
    &&& ix1.len() == ix0.len() - off
    &&& forall|i: int| 0 <= i < pos ==> #[trigger] ix1[i] == ix0[i]
    &&& forall|i: int| pos <= i < ix1.len() ==> #[trigger] ix1[i] == ix0[i + off] - 1
}
#[verifier::rlimit(80)]
proof fn lemma_remove_kept<T, U>(ix0: Seq<usize>, ix1: Seq<usize>, orig: Seq<T>, fs: spec_fn(T) -> Option<U>, index: usize, pos: int, off: int)
    requires
        finv(ix0, orig.len() as usize, orig, fs), index < orig.len(), is_pos(ix0, index, pos),
        off == (if kept_at(ix0, index, pos) { 1int } else { 0int }),
        rem_elems(ix0, ix1, pos, off),
    ensures
        finv(ix1, (orig.len() - 1) as usize, orig.remove(index as int), fs),
{
    let orig1 = orig.remove(index as int);
    assert forall|p: int| 0 <= p < orig1.len() && fs(#[trigger] orig1[p]) is Some implies exists|i: int| 0 <= i < ix1.len() && #[trigger] ix1[i] == p by {
        if p < index {
            assert(orig1[p] == orig[p]);
            let i = choose|i: int| 0 <= i < ix0.len() && #[trigger] ix0[i] == p;
            assert(i < pos);
            assert(ix1[i] == p);
        } else {
            assert(orig1[p] == orig[p + 1]);
            let i = choose|i: int| 0 <= i < ix0.len() && #[trigger] ix0[i] == p + 1;
            assert(i >= pos + off);
            assert(ix1[i - off] == ix0[(i - off) + off] - 1);
        }
    }
    assert forall|i: int| 0 <= i < ix1.len() implies (#[trigger] ix1[i]) < orig1.len() && fs(orig1[ix1[i] as int]) is Some by {
        if i < pos { assert(ix1[i] == ix0[i]); assert(orig1[ix0[i] as int] == orig[ix0[i] as int]); }
        else { assert(ix1[i] == ix0[i + off] - 1); assert(ix0[i + off] > index); assert(orig1[ix0[i + off] - 1] == orig[ix0[i + off] as int]); }
    }
    assert forall|i: int, j: int| 0 <= i < j < ix1.len() implies ix1[i] < ix1[j] by {
        if i < pos { assert(ix1[i] == ix0[i]); } else { assert(ix1[i] == ix0[i + off] - 1); }
        if j < pos { assert(ix1[j] == ix0[j]); } else { assert(ix1[j] == ix0[j + off] - 1); assert(ix0[j + off] > index); }
    }
}
#[verifier::rlimit(80)]
proof fn lemma_remove_view<T, U>(ix0: Seq<usize>, ix1: Seq<usize>, orig: Seq<T>, fs: spec_fn(T) -> Option<U>, index: usize, pos: int, off: int)
    requires
        finv(ix0, orig.len() as usize, orig, fs), index < orig.len(), is_pos(ix0, index, pos),
        off == (if kept_at(ix0, index, pos) { 1int } else { 0int }),
        rem_elems(ix0, ix1, pos, off),
    ensures
        view_of(ix0, orig, fs).len() == ix0.len(),
        if off == 1 { view_of(ix0, orig, fs).remove(pos) == view_of(ix1, orig.remove(index as int), fs) } else { view_of(ix0, orig, fs) == view_of(ix1, orig.remove(index as int), fs) },
{
    let orig1 = orig.remove(index as int);
    let v0 = view_of(ix0, orig, fs);
    let v1 = view_of(ix1, orig1, fs);
    let w = if off == 1 { v0.remove(pos) } else { v0 };
    assert forall|i: int| 0 <= i < v1.len() implies v1[i] == w[i] by {
        if i < pos { assert(ix1[i] == ix0[i]); assert(orig1[ix0[i] as int] == orig[ix0[i] as int]); }
        else { assert(ix1[i] == ix0[i + off] - 1); assert(ix0[i + off] > index); assert(orig1[ix0[i + off] - 1] == orig[ix0[i + off] as int]); }
    }
    assert(w =~= v1);
}
pub proof fn lemma_remove<T, U>(ix0: Seq<usize>, ix1: Seq<usize>, orig: Seq<T>, fs: spec_fn(T) -> Option<U>, index: usize, upos: usize)
    requires
        finv(ix0, orig.len() as usize, orig, fs),
        index < orig.len(),
        is_pos(ix0, index, upos as int),
        ix1 =~= shifted(rm_mid(ix0, upos as int, kept_at(ix0, index, upos as int)), upos as int, ix0.len() as int, -1),
    ensures
        finv(ix1, (orig.len() - 1) as usize, orig.remove(index as int), fs),
        view_of(ix0, orig, fs).len() == ix0.len(),
        if kept_at(ix0, index, upos as int) { view_of(ix1, orig.remove(index as int), fs) == view_of(ix0, orig, fs).remove(upos as int) } else { view_of(ix1, orig.remove(index as int), fs) == view_of(ix0, orig, fs) },
{
    let pos = upos as int;
    let off: int = if kept_at(ix0, index, pos) { 1 } else { 0 };
    assert(rem_elems(ix0, ix1, pos, off));
    lemma_remove_kept::<T, U>(ix0, ix1, orig, fs, index, pos, off);
    lemma_remove_view::<T, U>(ix0, ix1, orig, fs, index, pos, off);
}
pub proof fn lemma_pop_front<T, U>(ix0: Seq<usize>, ix1: Seq<usize>, orig: Seq<T>, fs: spec_fn(T) -> Option<U>)
    requires
        finv(ix0, orig.len() as usize, orig, fs),
        orig.len() > 0,
        ix1 =~= shifted(rm_mid(ix0, 0, kept_at(ix0, 0, 0)), 0, ix0.len() as int, -1),
    ensures
        finv(ix1, (orig.len() - 1) as usize, orig.subrange(1, orig.len() as int), fs),
        view_of(ix0, orig, fs).len() == ix0.len(),
        if kept_at(ix0, 0, 0) { view_of(ix1, orig.subrange(1, orig.len() as int), fs) == view_of(ix0, orig, fs).subrange(1, ix0.len() as int) } else { view_of(ix1, orig.subrange(1, orig.len() as int), fs) == view_of(ix0, orig, fs) },
{
    let off: int = if kept_at(ix0, 0, 0) { 1 } else { 0 };
    assert(is_pos(ix0, 0, 0));
    assert(rem_elems(ix0, ix1, 0, off));
    lemma_remove_kept::<T, U>(ix0, ix1, orig, fs, 0, 0, off);
    lemma_remove_view::<T, U>(ix0, ix1, orig, fs, 0, 0, off);
    assert(orig.subrange(1, orig.len() as int) =~= orig.remove(0));
    let v0 = view_of(ix0, orig, fs);
    assert(v0.subrange(1, v0.len() as int) =~= v0.remove(0));
}
pub proof fn lemma_pop_back<T, U>(ix0: Seq<usize>, ix1: Seq<usize>, orig: Seq<T>, fs: spec_fn(T) -> Option<U>)
    requires
        finv(ix0, orig.len() as usize, orig, fs),
        orig.len() > 0,
        ix1 =~= rm_mid(ix0, ix0.len() - 1, kept_at(ix0, (orig.len() - 1) as usize, ix0.len() - 1)),
    ensures
        finv(ix1, (orig.len() - 1) as usize, orig.subrange(0, orig.len() - 1), fs),
        view_of(ix0, orig, fs).len() == ix0.len(),
        if kept_at(ix0, (orig.len() - 1) as usize, ix0.len() - 1) { view_of(ix1, orig.subrange(0, orig.len() - 1), fs) == view_of(ix0, orig, fs).subrange(0, ix0.len() - 1) } else { view_of(ix1, orig.subrange(0, orig.len() - 1), fs) == view_of(ix0, orig, fs) },
{
    let index = (orig.len() - 1) as usize;
    let kept = kept_at(ix0, index, ix0.len() - 1);
    let off: int = if kept { 1 } else { 0 };
    let pos = ix0.len() - off;
    assert(is_pos(ix0, index, pos)) by {
        assert forall|i: int| 0 <= i < pos implies (#[trigger] ix0[i]) < index by {
            if ix0[i] == index { assert(i < ix0.len() - 1 ==> ix0[i] < ix0[ix0.len() - 1]); }
        }
    }
    assert(kept_at(ix0, index, pos) == kept);
    assert(rem_elems(ix0, ix1, pos, off));
    lemma_remove_kept::<T, U>(ix0, ix1, orig, fs, index, pos, off);
    lemma_remove_view::<T, U>(ix0, ix1, orig, fs, index, pos, off);
    assert(orig.subrange(0, orig.len() - 1) =~= orig.remove(index as int));
    let v0 = view_of(ix0, orig, fs);
    if kept { assert(v0.subrange(0, v0.len() - 1) =~= v0.remove(pos)); }
}

// Set, case by case.  `same`: the bookkeeping is unchanged (the item stays kept, or stays dropped).
proof fn lemma_set_same<T, U>(ix0: Seq<usize>, orig: Seq<T>, fs: spec_fn(T) -> Option<U>, index: usize, value: T, pos: int)
    requires
        finv(ix0, orig.len() as usize, orig, fs), index < orig.len(), is_pos(ix0, index, pos),
        kept_at(ix0, index, pos) == (fs(value) is Some),
    ensures
        finv(ix0, orig.len() as usize, orig.update(index as int, value), fs),
        view_of(ix0, orig, fs).len() == ix0.len(),
        match fs(value) { Some(u) => view_of(ix0, orig, fs).update(pos, u) == view_of(ix0, orig.update(index as int, value), fs), None => view_of(ix0, orig, fs) == view_of(ix0, orig.update(index as int, value), fs) },
{
    let orig1 = orig.update(index as int, value);
    let was = kept_at(ix0, index, pos);
    assert forall|i: int| 0 <= i < ix0.len() && i != pos implies (#[trigger] ix0[i]) != index by {
        if i < pos { } else if was { assert(ix0[pos] < ix0[i]); } else { if pos < ix0.len() { assert(ix0[pos] <= ix0[i]); } }
    }
    assert forall|p: int| 0 <= p < orig1.len() && fs(#[trigger] orig1[p]) is Some implies exists|i: int| 0 <= i < ix0.len() && #[trigger] ix0[i] == p by {
        if p == index { assert(orig1[p] == value); assert(ix0[pos] == p); }
        else { assert(orig1[p] == orig[p]); }
    }
    assert forall|i: int| 0 <= i < ix0.len() implies (#[trigger] ix0[i]) < orig1.len() && fs(orig1[ix0[i] as int]) is Some by {
        if i == pos && was { assert(orig1[index as int] == value); } else { assert(orig1[ix0[i] as int] == orig[ix0[i] as int]); }
    }
    let v0 = view_of(ix0, orig, fs);
    let v1 = view_of(ix0, orig1, fs);
    let target = match fs(value) { Some(u) => v0.update(pos, u), None => v0 };
    assert forall|j: int| 0 <= j < v1.len() implies v1[j] == target[j] by {
        if j == pos && was { assert(orig1[index as int] == value); } else { assert(orig1[ix0[j] as int] == orig[ix0[j] as int]); }
    }
    assert(target =~= v1);
}
// `drop`: the item was kept and the new value fails the filter
#[verifier::rlimit(80)]
proof fn lemma_set_drop<T, U>(ix0: Seq<usize>, orig: Seq<T>, fs: spec_fn(T) -> Option<U>, index: usize, value: T, pos: int)
    requires
        finv(ix0, orig.len() as usize, orig, fs), index < orig.len(), is_pos(ix0, index, pos),
        kept_at(ix0, index, pos), fs(value) is None,
    ensures
        finv(ix0.remove(pos), orig.len() as usize, orig.update(index as int, value), fs),
        view_of(ix0, orig, fs).len() == ix0.len(),
        view_of(ix0, orig, fs).remove(pos) == view_of(ix0.remove(pos), orig.update(index as int, value), fs),
{
    let orig1 = orig.update(index as int, value);
    let ix1 = ix0.remove(pos);
    assert forall|i: int| 0 <= i < ix1.len() implies #[trigger] ix1[i] == ix0[if i < pos { i } else { i + 1 }] && ix1[i] != index by {
        if i < pos { assert(ix0[i] < ix0[pos]); } else { assert(ix0[pos] < ix0[i + 1]); }
    }
    assert forall|p: int| 0 <= p < orig1.len() && fs(#[trigger] orig1[p]) is Some implies exists|i: int| 0 <= i < ix1.len() && #[trigger] ix1[i] == p by {
        if p == index { assert(orig1[p] == value); }
        else {
            assert(orig1[p] == orig[p]);
            let i = choose|i: int| 0 <= i < ix0.len() && #[trigger] ix0[i] == p;
            if i < pos { assert(ix1[i] == p); } else { assert(ix1[i - 1] == ix0[i]); }
        }
    }
    assert forall|i: int| 0 <= i < ix1.len() implies (#[trigger] ix1[i]) < orig1.len() && fs(orig1[ix1[i] as int]) is Some by {
        assert(orig1[ix1[i] as int] == orig[ix1[i] as int]);
    }
    assert forall|i: int, j: int| 0 <= i < j < ix1.len() implies ix1[i] < ix1[j] by {
        assert(ix0[if i < pos { i } else { i + 1 }] < ix0[if j < pos { j } else { j + 1 }]);
    }
    let v0 = view_of(ix0, orig, fs);
    let v1 = view_of(ix1, orig1, fs);
    assert forall|j: int| 0 <= j < v1.len() implies v1[j] == v0.remove(pos)[j] by { assert(orig1[ix1[j] as int] == orig[ix1[j] as int]); }
    assert(v0.remove(pos) =~= v1);
}
// `add`: the item was dropped and the new value passes the filter
pub open spec fn add_elems(ix0: Seq<usize>, ix1: Seq<usize>, index: usize, pos: int) -> bool {
    &&& ix1.len() == ix0.len() + 1
    &&& forall|i: int| 0 <= i < pos ==> #[trigger] ix1[i] == ix0[i]
    &&& ix1[pos] == index
    &&& forall|i: int| pos < i < ix1.len() ==> #[trigger] ix1[i] == ix0[i - 1]
}
#[verifier::rlimit(80)]
proof fn lemma_set_add_kept<T, U>(ix0: Seq<usize>, ix1: Seq<usize>, orig: Seq<T>, fs: spec_fn(T) -> Option<U>, index: usize, value: T, pos: int)
    requires
        finv(ix0, orig.len() as usize, orig, fs), index < orig.len(), is_pos(ix0, index, pos),
        !kept_at(ix0, index, pos), fs(value) is Some, add_elems(ix0, ix1, index, pos),
    ensures
        finv(ix1, orig.len() as usize, orig.update(index as int, value), fs),
{
    let orig1 = orig.update(index as int, value);
    assert forall|i: int| pos <= i < ix0.len() implies (#[trigger] ix0[i]) > index by { if i > pos { assert(ix0[pos] < ix0[i]); } }
    assert forall|p: int| 0 <= p < orig1.len() && fs(#[trigger] orig1[p]) is Some implies exists|i: int| 0 <= i < ix1.len() && #[trigger] ix1[i] == p by {
        if p == index { assert(ix1[pos] == p); }
        else {
            assert(orig1[p] == orig[p]);
            let i = choose|i: int| 0 <= i < ix0.len() && #[trigger] ix0[i] == p;
            if i < pos { assert(ix1[i] == p); } else { assert(ix1[i + 1] == ix0[(i + 1) - 1]); }
        }
    }
    assert forall|i: int| 0 <= i < ix1.len() implies (#[trigger] ix1[i]) < orig1.len() && fs(orig1[ix1[i] as int]) is Some by {
        if i == pos { assert(orig1[index as int] == value); }
        else if i < pos { assert(ix1[i] == ix0[i]); assert(orig1[ix0[i] as int] == orig[ix0[i] as int]); }
        else { assert(ix1[i] == ix0[i - 1]); assert(ix0[i - 1] > index); assert(orig1[ix0[i - 1] as int] == orig[ix0[i - 1] as int]); }
    }
    assert forall|i: int, j: int| 0 <= i < j < ix1.len() implies ix1[i] < ix1[j] by {
        if i < pos { assert(ix1[i] == ix0[i]); } else if i > pos { assert(ix1[i] == ix0[i - 1]); }
        if j < pos { assert(ix1[j] == ix0[j]); } else if j > pos { assert(ix1[j] == ix0[j - 1]); assert(ix0[j - 1] > index); }
    }
}
proof fn lemma_set_add_view<T, U>(ix0: Seq<usize>, ix1: Seq<usize>, orig: Seq<T>, fs: spec_fn(T) -> Option<U>, index: usize, value: T, pos: int)
    requires
        finv(ix0, orig.len() as usize, orig, fs), index < orig.len(), is_pos(ix0, index, pos),
        !kept_at(ix0, index, pos), fs(value) is Some, add_elems(ix0, ix1, index, pos),
    ensures
        view_of(ix0, orig, fs).len() == ix0.len(),
        view_of(ix0, orig, fs).insert(pos, fs(value).unwrap()) == view_of(ix1, orig.update(index as int, value), fs),
{
    let orig1 = orig.update(index as int, value);
    assert forall|i: int| pos <= i < ix0.len() implies (#[trigger] ix0[i]) > index by { if i > pos { assert(ix0[pos] < ix0[i]); } }
    let v0 = view_of(ix0, orig, fs);
    let v1 = view_of(ix1, orig1, fs);
    let u = fs(value).unwrap();
    assert forall|j: int| 0 <= j < v1.len() implies v1[j] == v0.insert(pos, u)[j] by {
        if j == pos { assert(orig1[index as int] == value); }
        else if j < pos { assert(ix1[j] == ix0[j]); assert(orig1[ix0[j] as int] == orig[ix0[j] as int]); }
        else { assert(ix1[j] == ix0[j - 1]); assert(ix0[j - 1] > index); assert(orig1[ix0[j - 1] as int] == orig[ix0[j - 1] as int]); }
    }
    assert(v0.insert(pos, u) =~= v1);
}
pub proof fn lemma_set<T, U>(ix0: Seq<usize>, ix1: Seq<usize>, orig: Seq<T>, fs: spec_fn(T) -> Option<U>, index: usize, value: T, upos: usize)
    requires
        finv(ix0, orig.len() as usize, orig, fs),
        index < orig.len(),
        is_pos(ix0, index, upos as int),
        match fs(value) {
            Some(u) => if kept_at(ix0, index, upos as int) { ix1 =~= ix0 } else { ix1 =~= ix0.insert(upos as int, index) },
            None => if kept_at(ix0, index, upos as int) { ix1 =~= ix0.remove(upos as int) } else { ix1 =~= ix0 },
        },
    ensures
        finv(ix1, orig.len() as usize, orig.update(index as int, value), fs),
        view_of(ix0, orig, fs).len() == ix0.len(),
        match fs(value) {
            Some(u) => if kept_at(ix0, index, upos as int) { view_of(ix1, orig.update(index as int, value), fs) == view_of(ix0, orig, fs).update(upos as int, u) }
                       else { view_of(ix1, orig.update(index as int, value), fs) == view_of(ix0, orig, fs).insert(upos as int, u) },
            None => if kept_at(ix0, index, upos as int) { view_of(ix1, orig.update(index as int, value), fs) == view_of(ix0, orig, fs).remove(upos as int) }
                    else { view_of(ix1, orig.update(index as int, value), fs) == view_of(ix0, orig, fs) },
        },
{
    let pos = upos as int;
    let was = kept_at(ix0, index, pos);
    let now = fs(value) is Some;
    if was == now { lemma_set_same(ix0, orig, fs, index, value, pos); }
    else if was { lemma_set_drop(ix0, orig, fs, index, value, pos); }
    else {
        assert(add_elems(ix0, ix1, index, pos));
        lemma_set_add_kept(ix0, ix1, orig, fs, index, value, pos);
        lemma_set_add_view(ix0, ix1, orig, fs, index, value, pos);
    }
}
#[verifier::rlimit(80)]
pub proof fn lemma_truncate<T, U>(ix0: Seq<usize>, ix1: Seq<usize>, orig: Seq<T>, fs: spec_fn(T) -> Option<U>, len: usize, n: usize)
    requires
        finv(ix0, orig.len() as usize, orig, fs),
        len <= orig.len(),
        n <= ix0.len(), forall|i: int| 0 <= i < n ==> (#[trigger] ix0[i]) < len, n < ix0.len() ==> ix0[n as int] >= len,
        ix1 =~= ix0.subrange(0, n as int),
    ensures
        finv(ix1, len, if len < orig.len() { orig.subrange(0, len as int) } else { orig }, fs),
        view_of(ix0, orig, fs).len() == ix0.len(),
        view_of(ix1, if len < orig.len() { orig.subrange(0, len as int) } else { orig }, fs) == view_of(ix0, orig, fs).subrange(0, n as int),
        n == ix0.len() ==> view_of(ix1, if len < orig.len() { orig.subrange(0, len as int) } else { orig }, fs) == view_of(ix0, orig, fs),
{
    let orig1 = if len < orig.len() { orig.subrange(0, len as int) } else { orig };
    assert(orig1 =~= orig.subrange(0, len as int));
    assert forall|i: int| n <= i < ix0.len() implies (#[trigger] ix0[i]) >= len by { if i > n { assert(ix0[n as int] < ix0[i]); } }
    assert(ix1 =~= ix0.subrange(0, n as int));
    assert forall|p: int| 0 <= p < orig1.len() && fs(#[trigger] orig1[p]) is Some implies exists|i: int| 0 <= i < ix1.len() && #[trigger] ix1[i] == p by {
        assert(orig1[p] == orig[p]);
        let i = choose|i: int| 0 <= i < ix0.len() && #[trigger] ix0[i] == p;
        assert(i < n);
        assert(ix1[i] == p);
    }
    assert forall|i: int| 0 <= i < ix1.len() implies (#[trigger] ix1[i]) < orig1.len() && fs(orig1[ix1[i] as int]) is Some by {
        assert(ix1[i] == ix0[i]); assert(orig1[ix0[i] as int] == orig[ix0[i] as int]);
    }
    assert forall|i: int, j: int| 0 <= i < j < ix1.len() implies ix1[i] < ix1[j] by { assert(ix1[i] == ix0[i]); assert(ix1[j] == ix0[j]); }
    let v0 = view_of(ix0, orig, fs);
    let v1 = view_of(ix1, orig1, fs);
    assert forall|j: int| 0 <= j < v1.len() implies v1[j] == v0[j] by { assert(ix1[j] == ix0[j]); assert(orig1[ix0[j] as int] == orig[ix0[j] as int]); }
    assert(v0.subrange(0, n as int) =~= v1);
    assert(v0.len() == ix0.len());
    if n == ix0.len() { assert(v0 =~= v1); }
}

// The invariant in the property's own words: with `ix` the kept positions, the view is the filter-map of the source in source order.
#[verifier::rlimit(80)]
pub proof fn lemma_view_is_fmap<T, U>(ix: Seq<usize>, orig: Seq<T>, fs: spec_fn(T) -> Option<U>)
    requires is_kept(ix, orig, fs),
    ensures view_of(ix, orig, fs) == fmap(orig, fs),
    decreases orig.len(),
{
    if orig.len() == 0 {
        if ix.len() > 0 { assert(ix[0] < orig.len()); }
        assert(view_of(ix, orig, fs) =~= Seq::<U>::empty());
    } else {
        let n = orig.len() - 1;
        let orig1 = orig.drop_last();
        if fs(orig.last()) is Some {
            assert(fs(orig[n]) is Some);
            let i = choose|i: int| 0 <= i < ix.len() && #[trigger] ix[i] == n;
            if i < ix.len() - 1 { assert(ix[i] < ix[ix.len() - 1]); assert(ix[ix.len() - 1] < orig.len()); }
            let ix1 = ix.drop_last();
            assert forall|j: int| 0 <= j < ix1.len() implies (#[trigger] ix1[j]) < orig1.len() && fs(orig1[ix1[j] as int]) is Some by {
                assert(ix1[j] == ix[j]); assert(ix[j] < ix[ix.len() - 1]); assert(orig1[ix[j] as int] == orig[ix[j] as int]);
            }
            assert forall|p: int| 0 <= p < orig1.len() && fs(#[trigger] orig1[p]) is Some implies exists|j: int| 0 <= j < ix1.len() && #[trigger] ix1[j] == p by {
                assert(orig1[p] == orig[p]);
                let j = choose|j: int| 0 <= j < ix.len() && #[trigger] ix[j] == p;
                assert(ix1[j] == p);
            }
            assert forall|a: int, b: int| 0 <= a < b < ix1.len() implies ix1[a] < ix1[b] by { assert(ix1[a] == ix[a] && ix1[b] == ix[b]); }
            lemma_view_is_fmap(ix1, orig1, fs);
            let v = view_of(ix, orig, fs);
            let v1 = view_of(ix1, orig1, fs);
            assert forall|j: int| 0 <= j < v.len() implies v[j] == v1.push(fs(orig.last()).unwrap())[j] by {
                if j < ix1.len() { assert(ix1[j] == ix[j]); assert(ix[j] < ix[ix.len() - 1]); assert(orig1[ix[j] as int] == orig[ix[j] as int]); }
            }
            assert(v =~= v1.push(fs(orig.last()).unwrap()));
        } else {
            assert forall|j: int| 0 <= j < ix.len() implies (#[trigger] ix[j]) < orig1.len() && fs(orig1[ix[j] as int]) is Some by {
                if ix[j] == n { assert(fs(orig[ix[j] as int]) is Some); }
                assert(orig1[ix[j] as int] == orig[ix[j] as int]);
            }
            assert forall|p: int| 0 <= p < orig1.len() && fs(#[trigger] orig1[p]) is Some implies exists|j: int| 0 <= j < ix.len() && #[trigger] ix[j] == p by {
                assert(orig1[p] == orig[p]);
            }
            lemma_view_is_fmap(ix, orig1, fs);
            let v = view_of(ix, orig, fs);
            let v1 = view_of(ix, orig1, fs);
            assert forall|j: int| 0 <= j < v.len() implies v[j] == v1[j] by { assert(orig1[ix[j] as int] == orig[ix[j] as int]); }
            assert(v =~= v1);
        }
    }
}

// Reset = forget everything, then append to the empty source
pub proof fn lemma_reset<T, U>(ix0: Seq<usize>, ix1: Seq<usize>, len1: usize, r: Option<Vector<U>>, vals: Vector<U>, orig: Seq<T>, values: Seq<T>, fs: spec_fn(T) -> Option<U>)
    requires
        fstep(Seq::<usize>::empty(), ix1, len1, app_res(r), Seq::<T>::empty(), Seq::<T>::empty() + values, fs),
        vals@ == (match r { Some(v) => v@, None => Seq::<U>::empty() }),
    ensures
        fstep(ix0, ix1, len1, Some(VectorDiff::Reset { values: vals }), orig, values, fs),
{
    assert(Seq::<T>::empty() + values =~= values);
    assert(view_of(Seq::<usize>::empty(), Seq::<T>::empty(), fs) =~= Seq::<U>::empty());
    match r {
        Some(v) => { assert(Seq::<U>::empty() + v@ =~= v@); }
        None => {}
    }
}

// ---- Append: n pushes at the back, one per new item (needs prelude/loops.rs: mask_filter, mask_positions)
#[verifier::rlimit(80)]
pub proof fn lemma_append_steps<T, U>(ix0: Seq<usize>, ix1: Seq<usize>, orig: Seq<T>, values: Seq<T>, fs: spec_fn(T) -> Option<U>, mask: Seq<bool>)
    requires
        finv(ix0, orig.len() as usize, orig, fs),
        orig.len() + values.len() < usize::MAX,
        mask.len() == values.len(),
        forall|j: int| 0 <= j < values.len() ==> mask[j] == (#[trigger] fs(values[j]) is Some),
        ix1 =~= ix0 + mask_positions(mask, orig.len() as int),
    ensures
        finv(ix1, (orig.len() + values.len()) as usize, orig + values, fs),
        view_of(ix1, orig + values, fs) == view_of(ix0, orig, fs) + fmap(values, fs),
    decreases values.len(),
{
    if values.len() == 0 {
        assert(orig + values =~= orig);
        assert(ix1 =~= ix0);
        assert(view_of(ix0, orig, fs) + fmap(values, fs) =~= view_of(ix0, orig, fs));
    } else {
        let v1 = values.drop_last();
        let m1 = mask.drop_last();
        let ixm = ix0 + mask_positions(m1, orig.len() as int);
        assert forall|j: int| 0 <= j < v1.len() implies m1[j] == (#[trigger] fs(v1[j]) is Some) by { assert(v1[j] == values[j]); }
        lemma_append_steps(ix0, ixm, orig, v1, fs, m1);
        let o1 = orig + v1;
        let value = values.last();
        assert(o1.push(value) =~= orig + values);
        assert(mask.last() == (fs(values[values.len() - 1]) is Some));
        if mask.last() { assert(ix1 =~= ixm.push(o1.len() as usize)); } else { assert(ix1 =~= ixm); }
        lemma_push_back(ixm, ix1, o1, fs, value);
        match fs(value) {
            Some(u) => { assert(view_of(ix0, orig, fs) + fmap(values, fs) =~= (view_of(ix0, orig, fs) + fmap(v1, fs)).push(u)); }
            None => {}
        }
    }
}
pub proof fn lemma_mask_filter_is_fmap<T>(values: Seq<T>, ps: spec_fn(T) -> bool, mask: Seq<bool>)
    requires mask.len() == values.len(), forall|j: int| 0 <= j < values.len() ==> mask[j] == #[trigger] ps(values[j]),
    ensures mask_filter(values, mask) == fmap(values, pfs(ps)),
    decreases values.len(),
{
    if values.len() > 0 {
        let v1 = values.drop_last();
        let m1 = mask.drop_last();
        assert forall|j: int| 0 <= j < v1.len() implies m1[j] == #[trigger] ps(v1[j]) by { assert(v1[j] == values[j]); }
        lemma_mask_filter_is_fmap(v1, ps, m1);
        assert(mask.last() == ps(values[values.len() - 1]));
    }
}
pub proof fn lemma_append<T, U>(ix0: Seq<usize>, ix1: Seq<usize>, res: Option<Vector<U>>, orig: Seq<T>, values: Seq<T>, fs: spec_fn(T) -> Option<U>, mask: Seq<bool>)
    requires
        finv(ix0, orig.len() as usize, orig, fs),
        orig.len() + values.len() < usize::MAX,
        mask.len() == values.len(),
        forall|j: int| 0 <= j < values.len() ==> mask[j] == (#[trigger] fs(values[j]) is Some),
        ix1 =~= ix0 + mask_positions(mask, orig.len() as int),
        match res { Some(v) => v@ == fmap(values, fs) && v@.len() > 0, None => fmap(values, fs).len() == 0 },
    ensures
        fstep(ix0, ix1, (orig.len() + values.len()) as usize, app_res(res), orig, orig + values, fs),
{
    lemma_append_steps(ix0, ix1, orig, values, fs, mask);
    match res {
        Some(v) => {}
        None => { assert(view_of(ix0, orig, fs) + fmap(values, fs) =~= view_of(ix0, orig, fs)); }
    }
}
