// C19 / C03: the abstract handle heap. `Arc`'s contract is "strong count = number of live strong handles on the
// allocation". The per-function obligations of unit `shared` say which handles each operation creates:
//   clone        : one handle on the state allocation AND one on the clone-counter allocation   (shared/shared_clone)
//   subscribe*   : one handle on the state allocation only                                       (shared/subscribe, subscribe_reset)
//   downgrade    : one weak handle on each                                                       (shared/downgrade)
//   upgrade      : Some iff both allocations still have a strong handle; then one handle on each (shared/upgrade)
//   from_inner   : a new counter allocation with exactly one handle                             (shared/from_inner)
//   drop (owner) : closes iff the counter's strong count is 1                                    (shared/shared_drop)
// and the count functions return strong(counter), strong(state) - strong(counter), their sum, weak(state).
// The lemmas below carry these through every history (induction over the operations).
pub struct Heap { pub owners: nat, pub subs: nat, pub weaks: nat, pub closed: bool }
pub open spec fn strong_state(h: Heap) -> nat { h.owners + h.subs }
pub open spec fn strong_counter(h: Heap) -> nat { h.owners }
pub enum HOp { CloneOwner, Subscribe, Downgrade, Upgrade, CloneWeak, DropOwner, DropSub, DropWeak }
pub open spec fn enabled(h: Heap, op: HOp) -> bool {
    match op {
        HOp::CloneOwner | HOp::Subscribe | HOp::Downgrade | HOp::DropOwner => h.owners > 0,
        HOp::Upgrade | HOp::CloneWeak | HOp::DropWeak => h.weaks > 0,
        HOp::DropSub => h.subs > 0,
    }
}
pub open spec fn step(h: Heap, op: HOp) -> Heap {
    match op {
        HOp::CloneOwner => Heap { owners: h.owners + 1, ..h },
        HOp::Subscribe => Heap { subs: h.subs + 1, ..h },
        HOp::Downgrade | HOp::CloneWeak => Heap { weaks: h.weaks + 1, ..h },
        // upgrade succeeds exactly while the counter allocation has a strong handle, i.e. while an owner exists
        HOp::Upgrade => if strong_counter(h) > 0 { Heap { owners: h.owners + 1, ..h } } else { h },
        // the last owner (counter's strong count == 1) closes
        HOp::DropOwner => Heap { owners: (h.owners - 1) as nat, closed: h.closed || strong_counter(h) == 1, ..h },
        HOp::DropSub => Heap { subs: (h.subs - 1) as nat, ..h },
        HOp::DropWeak => Heap { weaks: (h.weaks - 1) as nat, ..h },
    }
}
pub open spec fn run(h: Heap, ops: Seq<HOp>) -> Heap
    decreases ops.len()
{
    if ops.len() == 0 { h } else { step(run(h, ops.drop_last()), ops.last()) }
}
pub open spec fn all_enabled(h: Heap, ops: Seq<HOp>) -> bool
    decreases ops.len()
{
    if ops.len() == 0 { true } else { all_enabled(h, ops.drop_last()) && enabled(run(h, ops.drop_last()), ops.last()) }
}
/// what the four count functions return in state h (their proved postconditions, with strong()/weak() = live handles)
pub open spec fn observable_count(h: Heap) -> nat { strong_counter(h) }
pub open spec fn subscriber_count(h: Heap) -> nat { (strong_state(h) - strong_counter(h)) as nat }
pub open spec fn strong_count(h: Heap) -> nat { observable_count(h) + subscriber_count(h) }
pub proof fn lemma_counts_exact_and_closed_iff_no_owner(ops: Seq<HOp>)
    requires all_enabled(Heap { owners: 1, subs: 0, weaks: 0, closed: false }, ops),
    ensures ({ let h = run(Heap { owners: 1, subs: 0, weaks: 0, closed: false }, ops);
        &&& observable_count(h) == h.owners      // C19
        &&& subscriber_count(h) == h.subs
        &&& strong_count(h) == h.owners + h.subs
        &&& strong_state(h) >= strong_counter(h)  // the precondition of subscriber_count (no underflow)
        &&& (h.closed <==> h.owners == 0)          // C03: the stream ends exactly when the last owner is gone
    }),
    decreases ops.len(),
{
    if ops.len() > 0 {
        lemma_counts_exact_and_closed_iff_no_owner(ops.drop_last());
    }
}
