use vstd::set_lib::*;
// Lemmas of C11 (sort.rs). Closure-free: the preconditions are facts about the spec order `ord`, which the calling context
// derives from the closures' `ensures`.
pub broadcast proof fn lemma_vals_insert<T>(b: Seq<(usize, T)>, i: int, x: (usize, T))
    requires 0 <= i <= b.len()
    ensures #[trigger] vals(b.insert(i, x)) == vals(b).insert(i, x.1)
{ assert(vals(b.insert(i, x)) =~= vals(b).insert(i, x.1)); }
pub broadcast proof fn lemma_vals_remove<T>(b: Seq<(usize, T)>, i: int)
    requires 0 <= i < b.len()
    ensures #[trigger] vals(b.remove(i)) == vals(b).remove(i)
{ assert(vals(b.remove(i)) =~= vals(b).remove(i)); }
pub broadcast proof fn lemma_vals_update<T>(b: Seq<(usize, T)>, i: int, x: (usize, T))
    requires 0 <= i < b.len()
    ensures #[trigger] vals(b.update(i, x)) == vals(b).update(i, x.1)
{ assert(vals(b.update(i, x)) =~= vals(b).update(i, x.1)); }
pub broadcast proof fn lemma_vals_push<T>(b: Seq<(usize, T)>, x: (usize, T))
    ensures #[trigger] vals(b.push(x)) == vals(b).push(x.1)
{ assert(vals(b.push(x)) =~= vals(b).push(x.1)); }
pub broadcast proof fn lemma_vals_add<T>(a: Seq<(usize, T)>, b: Seq<(usize, T)>)
    ensures #[trigger] vals(a + b) == vals(a) + vals(b)
{ assert(vals(a + b) =~= vals(a) + vals(b)); }
pub broadcast proof fn lemma_vals_empty<T>()
    ensures #[trigger] vals(Seq::<(usize, T)>::empty()) == Seq::<T>::empty()
{ assert(vals(Seq::<(usize, T)>::empty()) =~= Seq::<T>::empty()); }
pub broadcast group sort_vals { lemma_vals_insert, lemma_vals_remove, lemma_vals_update, lemma_vals_push, lemma_vals_add, lemma_vals_empty }

// the probe `|x| ord(x, nv)` runs Less… Equal… Greater… along a sorted buffer
pub open spec fn mono<T>(buf: Seq<(usize, T)>, ord: spec_fn(T, T) -> Ordering, nv: T) -> bool {
    forall|i: int, j: int| 0 <= i < j < buf.len() ==> ord_rank(ord((#[trigger] buf[i]).1, nv)) <= ord_rank(ord((#[trigger] buf[j]).1, nv))
}
pub proof fn lemma_mono<T>(buf: Seq<(usize, T)>, ord: spec_fn(T, T) -> Ordering, nv: T)
    requires total_preorder(ord), sorted(buf, ord)
    ensures mono(buf, ord, nv)
{
    reveal(total_preorder);
    assert forall|i: int, j: int| 0 <= i < j < buf.len() implies ord_rank(ord((#[trigger] buf[i]).1, nv)) <= ord_rank(ord((#[trigger] buf[j]).1, nv)) by {
        let a = buf[i].1; let b = buf[j].1;
        assert(le(ord, a, b));
        // a <= b: if a > nv then b > nv; if a ~ nv then b >= nv
        if ord(a, nv) == Ordering::Greater {
            assert(ord(nv, a) == Ordering::Less);
            if ord(b, nv) != Ordering::Greater { assert(ord(a, nv) != Ordering::Greater); }
        } else if ord(a, nv) == Ordering::Equal {
            if ord(b, nv) == Ordering::Less {
                assert(ord(nv, b) == Ordering::Greater);
                assert(ord(nv, a) != Ordering::Greater) by { if ord(nv, a) == Ordering::Greater { assert(ord(a, nv) == Ordering::Less); } }
                assert(ord(nv, b) != Ordering::Greater);
            }
        }
    }
}
// what binary search found, in terms of `ord`
pub open spec fn bs_found<T>(buf: Seq<(usize, T)>, ord: spec_fn(T, T) -> Ordering, nv: T, idx: int) -> bool {
    0 <= idx <= buf.len() && (
        (idx < buf.len() && ord(buf[idx].1, nv) == Ordering::Equal)
        || ((forall|j: int| 0 <= j < idx ==> ord((#[trigger] buf[j]).1, nv) == Ordering::Less) && (forall|j: int| idx <= j < buf.len() ==> ord((#[trigger] buf[j]).1, nv) == Ordering::Greater)))
}
pub proof fn lemma_bs_ins_ok<T>(buf: Seq<(usize, T)>, ord: spec_fn(T, T) -> Ordering, nv: T, idx: int)
    requires total_preorder(ord), sorted(buf, ord), bs_found(buf, ord, nv, idx)
    ensures ins_ok(buf, ord, nv, idx)
{
    reveal(total_preorder);
    if idx < buf.len() && ord(buf[idx].1, nv) == Ordering::Equal {
        let m = buf[idx].1;
        assert(ord(nv, m) != Ordering::Greater) by { if ord(nv, m) == Ordering::Greater { assert(ord(m, nv) == Ordering::Less); } }
        assert forall|j: int| 0 <= j < idx implies le(ord, (#[trigger] buf[j]).1, nv) by { assert(le(ord, buf[j].1, m)); }
        assert forall|j: int| idx <= j < buf.len() implies le(ord, nv, (#[trigger] buf[j]).1) by { if j > idx { assert(le(ord, m, buf[j].1)); } }
    } else {
        assert forall|j: int| idx <= j < buf.len() implies le(ord, nv, (#[trigger] buf[j]).1) by {
            assert(ord(buf[j].1, nv) == Ordering::Greater);
            assert(ord(nv, buf[j].1) == Ordering::Less);
        }
    }
}
pub proof fn lemma_insert_sorted<T>(buf: Seq<(usize, T)>, ord: spec_fn(T, T) -> Ordering, idx: int, x: (usize, T))
    requires sorted(buf, ord), ins_ok(buf, ord, x.1, idx)
    ensures sorted(buf.insert(idx, x), ord)
{
    let n = buf.insert(idx, x);
    assert forall|i: int, j: int| 0 <= i < j < n.len() implies le(ord, (#[trigger] n[i]).1, (#[trigger] n[j]).1) by {
        if i == idx { assert(n[j] == buf[j - 1]); }
        else if j == idx { assert(n[i] == buf[i]); }
        else {
            let i0 = if i < idx { i } else { i - 1 };
            let j0 = if j < idx { j } else { j - 1 };
            assert(n[i] == buf[i0] && n[j] == buf[j0]);
        }
    }
}
pub proof fn lemma_shift_up_sorted<T>(buf: Seq<(usize, T)>, ord: spec_fn(T, T) -> Ordering, t: usize)
    requires sorted(buf, ord)
    ensures sorted(shift_up(buf, t), ord), vals(shift_up(buf, t)) == vals(buf), forall|nv: T, idx: int| ins_ok(buf, ord, nv, idx) ==> ins_ok(shift_up(buf, t), ord, nv, idx)
{
    let u = shift_up(buf, t);
    assert forall|i: int| 0 <= i < buf.len() implies (#[trigger] u[i]).1 == buf[i].1 by {}
    assert(vals(u) =~= vals(buf));
    assert forall|i: int, j: int| 0 <= i < j < u.len() implies le(ord, (#[trigger] u[i]).1, (#[trigger] u[j]).1) by { assert(le(ord, buf[i].1, buf[j].1)); }
    assert forall|nv: T, idx: int| ins_ok(buf, ord, nv, idx) implies ins_ok(u, ord, nv, idx) by {
        assert forall|j: int| 0 <= j < idx implies le(ord, (#[trigger] u[j]).1, nv) by { assert(le(ord, buf[j].1, nv)); }
        assert forall|j: int| idx <= j < u.len() implies le(ord, nv, (#[trigger] u[j]).1) by { assert(le(ord, nv, buf[j].1)); }
    }
}
// a new source item at position `t`: the tags from `t` on move up, the new entry carries `t`
pub proof fn lemma_rel_insert<T>(b0: Seq<(usize, T)>, s0: Seq<T>, t: usize, nv: T, idx: int)
    requires rel(b0, s0), t <= s0.len(), 0 <= idx <= b0.len(), s0.len() < usize::MAX
    ensures rel(shift_up(b0, t).insert(idx, (t, nv)), s0.insert(t as int, nv))
{
    let u = shift_up(b0, t);
    let b1 = u.insert(idx, (t, nv));
    let s1 = s0.insert(t as int, nv);
    assert forall|i: int| 0 <= i < b1.len() implies (#[trigger] b1[i]).0 < s1.len() && s1[b1[i].0 as int] == b1[i].1 by {
        if i != idx {
            let i0 = if i < idx { i } else { i - 1 };
            assert(b1[i] == u[i0]);
            assert(b0[i0].0 < s0.len() && s0[b0[i0].0 as int] == b0[i0].1);
        }
    }
    assert forall|i: int, j: int| 0 <= i < j < b1.len() implies (#[trigger] b1[i]).0 != (#[trigger] b1[j]).0 by {
        let i0 = if i < idx { i } else { i - 1 };
        let j0 = if j < idx { j } else { j - 1 };
        if i != idx && j != idx { assert(b1[i] == u[i0] && b1[j] == u[j0]); assert(b0[i0].0 != b0[j0].0); }
        else if i == idx { assert(b1[j] == u[j0]); }
        else { assert(b1[i] == u[i0]); }
    }
}
// the whole "a source item arrives" step: PushFront (t = 0), PushBack (t = len), Insert (t = index); `idx` is what binary
// search found on the buffer with the tags already shifted
pub proof fn lemma_ins_at<T>(b0: Seq<(usize, T)>, s0: Seq<T>, ord: spec_fn(T, T) -> Ordering, t: usize, nv: T, idx: int, b1: Seq<(usize, T)>)
    requires total_preorder(ord), sinv(b0, s0, ord), t <= s0.len(), s0.len() < usize::MAX, bs_found(shift_up(b0, t), ord, nv, idx), b1 =~= shift_up(b0, t).insert(idx, (t, nv))
    ensures sinv(b1, s0.insert(t as int, nv), ord), vals(b1) == vals(b0).insert(idx, nv)
{
    let u = shift_up(b0, t);
    lemma_shift_up_sorted(b0, ord, t);
    lemma_bs_ins_ok(u, ord, nv, idx);
    lemma_insert_sorted(u, ord, idx, (t, nv));
    lemma_rel_insert(b0, s0, t, nv, idx);
    lemma_vals_insert(u, idx, (t, nv));
}
pub proof fn lemma_shift_up_none<T>(b0: Seq<(usize, T)>, s0: Seq<T>)
    requires rel(b0, s0), s0.len() <= usize::MAX
    ensures shift_up(b0, s0.len() as usize) == b0
{
    assert(shift_up(b0, s0.len() as usize) =~= b0);
}
// the source a buffer stands for is the one it was built from
pub proof fn lemma_has_src<T>(buf: Seq<(usize, T)>)
    requires has_src(buf)
    ensures rel(buf, src_of(buf))
{}
// PushBack: the new entry carries the tag `len`; nothing to shift
pub proof fn lemma_pb<T>(b0: Seq<(usize, T)>, s0: Seq<T>, ord: spec_fn(T, T) -> Ordering, nv: T, idx: int, b1: Seq<(usize, T)>)
    requires total_preorder(ord), sinv(b0, s0, ord), s0.len() < usize::MAX, bs_found(b0, ord, nv, idx), b1 =~= b0.insert(idx, (b0.len() as usize, nv))
    ensures sinv(b1, s0.push(nv), ord), vals(b1) == vals(b0).insert(idx, nv)
{
    lemma_shift_up_none(b0, s0);
    lemma_ins_at(b0, s0, ord, s0.len() as usize, nv, idx, b1);
    assert(s0.insert(s0.len() as int, nv) =~= s0.push(nv));
}
// pigeonhole: n distinct tags below n — every source position has its entry
pub proof fn lemma_pigeon(tags: Seq<int>, k: int)
    requires tags.no_duplicates(), forall|i: int| 0 <= i < tags.len() ==> 0 <= #[trigger] tags[i] < tags.len(), 0 <= k < tags.len()
    ensures tags.contains(k)
{
    tags.unique_seq_to_set();
    let r = set_int_range(0, tags.len() as int);
    lemma_int_range(0, tags.len() as int);
    assert(tags.to_set().subset_of(r)) by {
        assert forall|x: int| tags.to_set().contains(x) implies r.contains(x) by {
            let i = choose|i: int| 0 <= i < tags.len() && tags[i] == x;
        }
    }
    lemma_subset_equality(tags.to_set(), r);
    assert(r.contains(k));
}
pub open spec fn tag_at<T>(buf: Seq<(usize, T)>, k: int) -> bool { exists|i: int| 0 <= i < buf.len() && (#[trigger] buf[i]).0 == k }
pub proof fn lemma_tag_present<T>(b0: Seq<(usize, T)>, s0: Seq<T>, k: int)
    requires rel(b0, s0), 0 <= k < s0.len()
    ensures tag_at(b0, k)
{
    let tags = Seq::new(b0.len(), |i: int| b0[i].0 as int);
    assert forall|i: int, j: int| 0 <= i < tags.len() && 0 <= j < tags.len() && i != j implies tags[i] != tags[j] by {
        if i < j { assert(b0[i].0 != b0[j].0); } else { assert(b0[j].0 != b0[i].0); }
    }
    assert forall|i: int| 0 <= i < tags.len() implies 0 <= #[trigger] tags[i] < tags.len() by { assert(b0[i].0 < s0.len()); }
    lemma_pigeon(tags, k);
    let i = choose|i: int| 0 <= i < tags.len() && tags[i] == k;
    assert(b0[i].0 == k);
}
// two sources for one buffer are the same source
pub proof fn lemma_rel_unique<T>(buf: Seq<(usize, T)>, s1: Seq<T>, s2: Seq<T>)
    requires rel(buf, s1), rel(buf, s2)
    ensures s1 == s2
{
    assert forall|k: int| 0 <= k < s1.len() implies s1[k] == s2[k] by {
        lemma_tag_present(buf, s1, k);
        let i = choose|i: int| 0 <= i < buf.len() && (#[trigger] buf[i]).0 == k;
        assert(s1[buf[i].0 as int] == buf[i].1 && s2[buf[i].0 as int] == buf[i].1);
    }
    assert(s1 =~= s2);
}
pub proof fn lemma_remove_sorted<T>(buf: Seq<(usize, T)>, ord: spec_fn(T, T) -> Ordering, p: int)
    requires sorted(buf, ord), 0 <= p < buf.len()
    ensures sorted(buf.remove(p), ord)
{
    let n = buf.remove(p);
    assert forall|i: int, j: int| 0 <= i < j < n.len() implies le(ord, (#[trigger] n[i]).1, (#[trigger] n[j]).1) by {
        let i0 = if i < p { i } else { i + 1 };
        let j0 = if j < p { j } else { j + 1 };
        assert(n[i] == buf[i0] && n[j] == buf[j0]);
    }
}
pub proof fn lemma_shift_down_sorted<T>(buf: Seq<(usize, T)>, ord: spec_fn(T, T) -> Ordering, t: usize)
    requires sorted(buf, ord)
    ensures sorted(shift_down(buf, t), ord), vals(shift_down(buf, t)) == vals(buf)
{
    let u = shift_down(buf, t);
    assert forall|i: int| 0 <= i < buf.len() implies (#[trigger] u[i]).1 == buf[i].1 by {}
    assert(vals(u) =~= vals(buf));
    assert forall|i: int, j: int| 0 <= i < j < u.len() implies le(ord, (#[trigger] u[i]).1, (#[trigger] u[j]).1) by { assert(le(ord, buf[i].1, buf[j].1)); }
}
// the source item at `t` goes away: its entry (at `p`) is removed, the tags above `t` move down
pub proof fn lemma_rel_remove<T>(b0: Seq<(usize, T)>, s0: Seq<T>, t: usize, p: int)
    requires rel(b0, s0), 0 <= p < b0.len(), b0[p].0 == t
    ensures rel(shift_down(b0, t).remove(p), s0.remove(t as int))
{
    let u = shift_down(b0, t);
    let b1 = u.remove(p);
    let s1 = s0.remove(t as int);
    assert(b0[p].0 < s0.len());
    assert forall|i: int| 0 <= i < b1.len() implies (#[trigger] b1[i]).0 < s1.len() && s1[b1[i].0 as int] == b1[i].1 by {
        let i0 = if i < p { i } else { i + 1 };
        assert(b1[i] == u[i0]);
        assert(b0[i0].0 < s0.len() && s0[b0[i0].0 as int] == b0[i0].1);
        if i0 < p { assert(b0[i0].0 != b0[p].0); } else { assert(b0[p].0 != b0[i0].0); }
    }
    assert forall|i: int, j: int| 0 <= i < j < b1.len() implies (#[trigger] b1[i]).0 != (#[trigger] b1[j]).0 by {
        let i0 = if i < p { i } else { i + 1 };
        let j0 = if j < p { j } else { j + 1 };
        assert(b1[i] == u[i0] && b1[j] == u[j0]);
        assert(b0[i0].0 != b0[j0].0);
        if i0 < p { assert(b0[i0].0 != b0[p].0); } else { assert(b0[p].0 != b0[i0].0); }
        if j0 < p { assert(b0[j0].0 != b0[p].0); } else { assert(b0[p].0 != b0[j0].0); }
    }
}
// the whole "a source item goes away" step: PopFront (t = 0), PopBack (t = len - 1), Remove (t = index)
pub proof fn lemma_rm_at<T>(b0: Seq<(usize, T)>, s0: Seq<T>, ord: spec_fn(T, T) -> Ordering, t: usize, p: int, b1: Seq<(usize, T)>)
    requires sinv(b0, s0, ord), 0 <= p < b0.len(), b0[p].0 == t, b1 =~= shift_down(b0, t).remove(p)
    ensures sinv(b1, s0.remove(t as int), ord), vals(b1) == vals(b0).remove(p)
{
    let u = shift_down(b0, t);
    lemma_shift_down_sorted(b0, ord, t);
    lemma_remove_sorted(u, ord, p);
    lemma_rel_remove(b0, s0, t, p);
    lemma_vals_remove(u, p);
}
pub proof fn lemma_shift_down_none<T>(b0: Seq<(usize, T)>, s0: Seq<T>)
    requires rel(b0, s0), 0 < s0.len() <= usize::MAX
    ensures shift_down(b0, (s0.len() - 1) as usize) == b0
{
    assert(shift_down(b0, (s0.len() - 1) as usize) =~= b0);
}
// Set: the entry of source position `t` sits at `old`; binary search (on the buffer as it is) says `new`
pub proof fn lemma_ins_ok_after_remove<T>(b0: Seq<(usize, T)>, ord: spec_fn(T, T) -> Ordering, nv: T, new: int, old: int)
    requires ins_ok(b0, ord, nv, new), 0 <= old < b0.len()
    ensures old < new ==> ins_ok(b0.remove(old), ord, nv, new - 1), old >= new ==> ins_ok(b0.remove(old), ord, nv, new)
{
    let r = b0.remove(old);
    let dst = if old < new { new - 1 } else { new };
    assert forall|j: int| 0 <= j < dst implies le(ord, (#[trigger] r[j]).1, nv) by {
        let j0 = if j < old { j } else { j + 1 };
        assert(r[j] == b0[j0]);
        assert(le(ord, b0[j0].1, nv));
    }
    assert forall|j: int| dst <= j < r.len() implies le(ord, nv, (#[trigger] r[j]).1) by {
        let j0 = if j < old { j } else { j + 1 };
        assert(r[j] == b0[j0]);
        assert(le(ord, nv, b0[j0].1));
    }
}
pub proof fn lemma_rel_set_same<T>(b0: Seq<(usize, T)>, s0: Seq<T>, t: usize, nv: T, old: int)
    requires rel(b0, s0), 0 <= old < b0.len(), b0[old].0 == t
    ensures rel(b0.update(old, (t, nv)), s0.update(t as int, nv))
{
    let b1 = b0.update(old, (t, nv));
    let s1 = s0.update(t as int, nv);
    assert(b0[old].0 < s0.len());
    assert forall|i: int| 0 <= i < b1.len() implies (#[trigger] b1[i]).0 < s1.len() && s1[b1[i].0 as int] == b1[i].1 by {
        if i != old {
            assert(b1[i] == b0[i]);
            assert(b0[i].0 < s0.len() && s0[b0[i].0 as int] == b0[i].1);
            if i < old { assert(b0[i].0 != b0[old].0); } else { assert(b0[old].0 != b0[i].0); }
        }
    }
    assert forall|i: int, j: int| 0 <= i < j < b1.len() implies (#[trigger] b1[i]).0 != (#[trigger] b1[j]).0 by {
        assert(b0[i].0 != b0[j].0);
    }
}
pub proof fn lemma_rel_set_move<T>(b0: Seq<(usize, T)>, s0: Seq<T>, t: usize, nv: T, old: int, dst: int)
    requires rel(b0, s0), 0 <= old < b0.len(), b0[old].0 == t, 0 <= dst <= b0.len() - 1
    ensures rel(b0.remove(old).insert(dst, (t, nv)), s0.update(t as int, nv))
{
    let r = b0.remove(old);
    let b1 = r.insert(dst, (t, nv));
    let s1 = s0.update(t as int, nv);
    assert(b0[old].0 < s0.len());
    assert forall|i: int| 0 <= i < b1.len() implies (#[trigger] b1[i]).0 < s1.len() && s1[b1[i].0 as int] == b1[i].1 by {
        if i != dst {
            let i1 = if i < dst { i } else { i - 1 };
            let k = if i1 < old { i1 } else { i1 + 1 };
            assert(b1[i] == r[i1]);
            assert(r[i1] == b0[k]);
            assert(b0[k].0 < s0.len() && s0[b0[k].0 as int] == b0[k].1);
            if k < old { assert(b0[k].0 != b0[old].0); } else { assert(b0[old].0 != b0[k].0); }
        }
    }
    assert forall|i: int, j: int| 0 <= i < j < b1.len() implies (#[trigger] b1[i]).0 != (#[trigger] b1[j]).0 by {
        let i1 = if i < dst { i } else { i - 1 };
        let ki = if i1 < old { i1 } else { i1 + 1 };
        let j1 = if j < dst { j } else { j - 1 };
        let kj = if j1 < old { j1 } else { j1 + 1 };
        if i != dst && j != dst {
            assert(b1[i] == r[i1] && r[i1] == b0[ki]);
            assert(b1[j] == r[j1] && r[j1] == b0[kj]);
            assert(b0[ki].0 != b0[kj].0);
        } else if i == dst {
            assert(b1[j] == r[j1] && r[j1] == b0[kj]);
            if kj < old { assert(b0[kj].0 != b0[old].0); } else { assert(b0[old].0 != b0[kj].0); }
        } else {
            assert(b1[i] == r[i1] && r[i1] == b0[ki]);
            if ki < old { assert(b0[ki].0 != b0[old].0); } else { assert(b0[old].0 != b0[ki].0); }
        }
    }
}
pub proof fn lemma_set_move<T>(b0: Seq<(usize, T)>, s0: Seq<T>, ord: spec_fn(T, T) -> Ordering, t: usize, nv: T, old: int, new: int, dst: int, b1: Seq<(usize, T)>)
    requires total_preorder(ord), sinv(b0, s0, ord), 0 <= old < b0.len(), b0[old].0 == t, bs_found(b0, ord, nv, new),
        dst == (if old < new { new - 1 } else { new }), b1 =~= b0.remove(old).insert(dst, (t, nv))
    ensures sinv(b1, s0.update(t as int, nv), ord), vals(b1) == vals(b0).remove(old).insert(dst, nv), 0 <= dst <= b0.len() - 1
{
    lemma_bs_ins_ok(b0, ord, nv, new);
    lemma_ins_ok_after_remove(b0, ord, nv, new, old);
    lemma_remove_sorted(b0, ord, old);
    lemma_insert_sorted(b0.remove(old), ord, dst, (t, nv));
    lemma_rel_set_move(b0, s0, t, nv, old, dst);
    lemma_vals_remove(b0, old);
    lemma_vals_insert(b0.remove(old), dst, (t, nv));
}
pub proof fn lemma_set_same<T>(b0: Seq<(usize, T)>, s0: Seq<T>, ord: spec_fn(T, T) -> Ordering, t: usize, nv: T, old: int, new: int, b1: Seq<(usize, T)>)
    requires total_preorder(ord), sinv(b0, s0, ord), 0 <= old < b0.len(), b0[old].0 == t, bs_found(b0, ord, nv, new),
        old == new || old + 1 == new, b1 =~= b0.update(old, (t, nv))
    ensures sinv(b1, s0.update(t as int, nv), ord), vals(b1) == vals(b0).update(old, nv)
{
    lemma_bs_ins_ok(b0, ord, nv, new);
    assert forall|i: int, j: int| 0 <= i < j < b1.len() implies le(ord, (#[trigger] b1[i]).1, (#[trigger] b1[j]).1) by {
        if i == old { assert(b1[j] == b0[j]); assert(le(ord, nv, b0[j].1)); }
        else if j == old { assert(b1[i] == b0[i]); assert(le(ord, b0[i].1, nv)); }
        else { assert(b1[i] == b0[i] && b1[j] == b0[j]); assert(le(ord, b0[i].1, b0[j].1)); }
    }
    lemma_rel_set_same(b0, s0, t, nv, old);
    lemma_vals_update(b0, old, (t, nv));
}
// Reset: the new items, numbered and then sorted
pub open spec fn numbered<T>(e: Seq<(usize, T)>, vs: Seq<T>, offset: int) -> bool {
    e.len() == vs.len() && forall|i: int| 0 <= i < e.len() ==> (#[trigger] e[i]).0 == i + offset && e[i].1 == vs[i]
}
pub open spec fn pair_ord<T>(ord: spec_fn(T, T) -> Ordering) -> spec_fn((usize, T), (usize, T)) -> Ordering {
    |x: (usize, T), y: (usize, T)| ord(x.1, y.1)
}
pub proof fn lemma_sorted_numbered<T>(e: Seq<(usize, T)>, sn: Seq<(usize, T)>, vs: Seq<T>, ord: spec_fn(T, T) -> Ordering)
    requires numbered(e, vs, 0), exists|p: Seq<int>| #[trigger] permuted(e, sn, p),
        forall|i: int, j: int| 0 <= i < j < sn.len() ==> #[trigger] (pair_ord(ord))(sn[i], sn[j]) != Ordering::Greater
    ensures sinv(sn, vs, ord)
{
    let p = choose|p: Seq<int>| #[trigger] permuted(e, sn, p);
    assert forall|i: int| 0 <= i < sn.len() implies (#[trigger] sn[i]).0 < vs.len() && vs[sn[i].0 as int] == sn[i].1 by {
        assert(sn[i] == e[p[i]]);
    }
    assert forall|i: int, j: int| 0 <= i < j < sn.len() implies (#[trigger] sn[i]).0 != (#[trigger] sn[j]).0 by {
        assert(sn[i] == e[p[i]] && sn[j] == e[p[j]]);
    }
    assert forall|i: int, j: int| 0 <= i < j < sn.len() implies le(ord, (#[trigger] sn[i]).1, (#[trigger] sn[j]).1) by {
        assert((pair_ord(ord))(sn[i], sn[j]) != Ordering::Greater);
    }
}
// Append: the new items numbered from `offset`, sorted, then merged into the buffer one by one from the front
pub proof fn lemma_append_init<T>(b0: Seq<(usize, T)>, s0: Seq<T>, en: Seq<(usize, T)>, sn: Seq<(usize, T)>, vs: Seq<T>, ord: spec_fn(T, T) -> Ordering)
    requires rel(b0, s0), numbered(en, vs, s0.len() as int), exists|p: Seq<int>| #[trigger] permuted(en, sn, p),
        forall|i: int, j: int| 0 <= i < j < sn.len() ==> #[trigger] (pair_ord(ord))(sn[i], sn[j]) != Ordering::Greater
    ensures rel(b0 + sn, s0 + vs), sorted(sn, ord), sn.len() == vs.len()
{
    let p = choose|p: Seq<int>| #[trigger] permuted(en, sn, p);
    let c = b0 + sn;
    let s1 = s0 + vs;
    assert forall|i: int| 0 <= i < c.len() implies (#[trigger] c[i]).0 < s1.len() && s1[c[i].0 as int] == c[i].1 by {
        if i < b0.len() { assert(c[i] == b0[i]); assert(b0[i].0 < s0.len() && s0[b0[i].0 as int] == b0[i].1); }
        else { let k = i - b0.len(); assert(c[i] == sn[k]); assert(sn[k] == en[p[k]]); assert(en[p[k]].0 == p[k] + s0.len()); }
    }
    assert forall|i: int, j: int| 0 <= i < j < c.len() implies (#[trigger] c[i]).0 != (#[trigger] c[j]).0 by {
        if j < b0.len() { assert(c[i] == b0[i] && c[j] == b0[j]); assert(b0[i].0 != b0[j].0); }
        else if i < b0.len() {
            let k = j - b0.len();
            assert(c[i] == b0[i]); assert(b0[i].0 < s0.len());
            assert(c[j] == sn[k]); assert(sn[k] == en[p[k]]); assert(en[p[k]].0 == p[k] + s0.len());
        } else {
            let ki = i - b0.len(); let kj = j - b0.len();
            assert(c[i] == sn[ki] && c[j] == sn[kj]);
            assert(sn[ki] == en[p[ki]] && sn[kj] == en[p[kj]]);
            assert(en[p[ki]].0 == p[ki] + s0.len() && en[p[kj]].0 == p[kj] + s0.len());
        }
    }
    assert forall|i: int, j: int| 0 <= i < j < sn.len() implies le(ord, (#[trigger] sn[i]).1, (#[trigger] sn[j]).1) by {
        assert((pair_ord(ord))(sn[i], sn[j]) != Ordering::Greater);
    }
}
// the first of the remaining new items moves into the buffer at `idx`
pub proof fn lemma_rel_move<T>(buf: Seq<(usize, T)>, rest: Seq<(usize, T)>, s: Seq<T>, idx: int)
    requires rel(buf + rest, s), rest.len() > 0, 0 <= idx <= buf.len()
    ensures rel(buf.insert(idx, rest[0]) + rest.subrange(1, rest.len() as int), s)
{
    let c0 = buf + rest;
    let c1 = buf.insert(idx, rest[0]) + rest.subrange(1, rest.len() as int);
    let n = buf.len() as int;
    // c1[i] == c0[sg(i)]
    let sg = |i: int| if i < idx { i } else if i == idx { n } else if i <= n { i - 1 } else { i };
    assert forall|i: int| 0 <= i < c1.len() implies #[trigger] c1[i] == c0[sg(i)] && 0 <= sg(i) < c0.len() by {
        if i <= n { let b1 = buf.insert(idx, rest[0]); assert(c1[i] == b1[i]); if i == idx { assert(c0[n] == rest[0]); } else if i < idx { assert(c0[i] == buf[i]); } else { assert(c0[i - 1] == buf[i - 1]); } }
        else { assert(c1[i] == rest.subrange(1, rest.len() as int)[i - n - 1]); assert(c0[i] == rest[i - n]); }
    }
    assert forall|i: int| 0 <= i < c1.len() implies (#[trigger] c1[i]).0 < s.len() && s[c1[i].0 as int] == c1[i].1 by {
        assert(c1[i] == c0[sg(i)]);
        assert(c0[sg(i)].0 < s.len() && s[c0[sg(i)].0 as int] == c0[sg(i)].1);
    }
    assert forall|i: int, j: int| 0 <= i < j < c1.len() implies (#[trigger] c1[i]).0 != (#[trigger] c1[j]).0 by {
        assert(c1[i] == c0[sg(i)] && c1[j] == c0[sg(j)]);
        assert(sg(i) != sg(j));
        if sg(i) < sg(j) { assert(c0[sg(i)].0 != c0[sg(j)].0); } else { assert(c0[sg(j)].0 != c0[sg(i)].0); }
    }
}
pub proof fn lemma_rest_sorted<T>(rest: Seq<(usize, T)>, ord: spec_fn(T, T) -> Ordering)
    requires sorted(rest, ord), rest.len() > 0
    ensures sorted(rest.subrange(1, rest.len() as int), ord)
{
    let r = rest.subrange(1, rest.len() as int);
    assert forall|i: int, j: int| 0 <= i < j < r.len() implies le(ord, (#[trigger] r[i]).1, (#[trigger] r[j]).1) by {
        assert(r[i] == rest[i + 1] && r[j] == rest[j + 1]);
    }
}
// one turn of the merge loop
pub proof fn lemma_merge_step<T>(buf: Seq<(usize, T)>, rest: Seq<(usize, T)>, s: Seq<T>, ord: spec_fn(T, T) -> Ordering, idx: int, buf1: Seq<(usize, T)>, rest1: Seq<(usize, T)>)
    requires total_preorder(ord), rel(buf + rest, s), sorted(buf, ord), sorted(rest, ord), rest.len() > 0, bs_found(buf, ord, rest[0].1, idx),
        buf1 =~= buf.insert(idx, rest[0]), rest1 =~= rest.subrange(1, rest.len() as int)
    ensures rel(buf1 + rest1, s), sorted(buf1, ord), sorted(rest1, ord), vals(buf1) == vals(buf).insert(idx, rest[0].1)
{
    lemma_bs_ins_ok(buf, ord, rest[0].1, idx);
    lemma_insert_sorted(buf, ord, idx, rest[0]);
    lemma_rest_sorted(rest, ord);
    lemma_rel_move(buf, rest, s, idx);
    lemma_vals_insert(buf, idx, rest[0]);
}
// what is left of the new items goes behind the buffer
pub proof fn lemma_sorted_concat<T>(buf: Seq<(usize, T)>, rest: Seq<(usize, T)>, ord: spec_fn(T, T) -> Ordering)
    requires total_preorder(ord), sorted(buf, ord), sorted(rest, ord), buf.len() > 0 && rest.len() > 0 ==> le(ord, buf.last().1, rest[0].1)
    ensures sorted(buf + rest, ord)
{
    reveal(total_preorder);
    let c = buf + rest;
    assert forall|i: int, j: int| 0 <= i < j < c.len() implies le(ord, (#[trigger] c[i]).1, (#[trigger] c[j]).1) by {
        if j < buf.len() { assert(c[i] == buf[i] && c[j] == buf[j]); }
        else if i >= buf.len() { assert(c[i] == rest[i - buf.len()] && c[j] == rest[j - buf.len()]); }
        else {
            let a = buf[i].1; let l = buf.last().1; let f = rest[0].1; let b = rest[j - buf.len()].1;
            assert(c[i] == buf[i] && c[j] == rest[j - buf.len()]);
            assert(le(ord, a, l)) by { if i < buf.len() - 1 { assert(le(ord, buf[i].1, buf[buf.len() - 1].1)); } else { assert(ord(l, l) != Ordering::Greater) by { if ord(l, l) == Ordering::Greater { assert(ord(l, l) == Ordering::Less); } } } }
            assert(le(ord, f, b)) by { if j - buf.len() > 0 { assert(le(ord, rest[0].1, rest[j - buf.len()].1)); } else { assert(ord(f, f) != Ordering::Greater) by { if ord(f, f) == Ordering::Greater { assert(ord(f, f) == Ordering::Less); } } } }
            assert(le(ord, a, f));
            assert(le(ord, a, b));
        }
    }
}
// Truncate: the entries whose tag is below the new length stay, in order
pub open spec fn tmask<T>(b: Seq<(usize, T)>, len: usize) -> Seq<bool> { Seq::new(b.len(), |i: int| b[i].0 < len) }
pub open spec fn trunc<T>(s: Seq<T>, len: usize) -> Seq<T> { if len < s.len() { s.subrange(0, len as int) } else { s } }
// `ix` lists, ascending, the positions of `b` whose flag is set; `f` is `b` at those positions
pub open spec fn kept_ix<A>(b: Seq<A>, m: Seq<bool>, f: Seq<A>, ix: Seq<int>) -> bool {
    &&& ix.len() == f.len()
    &&& forall|q: int| 0 <= q < f.len() ==> 0 <= #[trigger] ix[q] < b.len() && m[ix[q]] && f[q] == b[ix[q]]
    &&& forall|q: int, r: int| 0 <= q < r < f.len() ==> #[trigger] ix[q] < #[trigger] ix[r]
    &&& forall|i: int| 0 <= i < b.len() && #[trigger] m[i] ==> exists|q: int| 0 <= q < f.len() && #[trigger] ix[q] == i
}
pub proof fn lemma_mf<A>(b: Seq<A>, m: Seq<bool>)
    requires m.len() == b.len()
    ensures exists|ix: Seq<int>| #[trigger] kept_ix(b, m, mask_filter(b, m), ix)
    decreases b.len()
{
    let f = mask_filter(b, m);
    if b.len() == 0 {
        assert(kept_ix(b, m, f, Seq::<int>::empty()));
    } else {
        let b1 = b.drop_last(); let m1 = m.drop_last();
        lemma_mf(b1, m1);
        let f1 = mask_filter(b1, m1);
        let ix1 = choose|ix: Seq<int>| #[trigger] kept_ix(b1, m1, f1, ix);
        let n = b.len() - 1;
        if m.last() {
            let ix = ix1.push(n);
            assert(f == f1.push(b.last()));
            assert forall|q: int| 0 <= q < f.len() implies 0 <= #[trigger] ix[q] < b.len() && m[ix[q]] && f[q] == b[ix[q]] by {
                if q < f1.len() { assert(ix[q] == ix1[q]); assert(m1[ix1[q]] == m[ix1[q]]); assert(b1[ix1[q]] == b[ix1[q]]); }
            }
            assert forall|q: int, r: int| 0 <= q < r < f.len() implies #[trigger] ix[q] < #[trigger] ix[r] by {
                if r < f1.len() { assert(ix[q] == ix1[q] && ix[r] == ix1[r]); } else { assert(ix[q] == ix1[q]); }
            }
            assert forall|i: int| 0 <= i < b.len() && #[trigger] m[i] implies exists|q: int| 0 <= q < f.len() && #[trigger] ix[q] == i by {
                if i < n { assert(m1[i]); let q = choose|q: int| 0 <= q < f1.len() && #[trigger] ix1[q] == i; assert(ix[q] == i); } else { assert(ix[f1.len() as int] == n); }
            }
            assert(kept_ix(b, m, f, ix));
        } else {
            assert(f == f1);
            assert forall|q: int| 0 <= q < f.len() implies 0 <= #[trigger] ix1[q] < b.len() && m[ix1[q]] && f[q] == b[ix1[q]] by {
                assert(m1[ix1[q]] == m[ix1[q]]); assert(b1[ix1[q]] == b[ix1[q]]);
            }
            assert forall|i: int| 0 <= i < b.len() && #[trigger] m[i] implies exists|q: int| 0 <= q < f.len() && #[trigger] ix1[q] == i by {
                assert(i < n); assert(m1[i]);
            }
            assert(kept_ix(b, m, f, ix1));
        }
    }
}
pub proof fn lemma_truncate<T>(b0: Seq<(usize, T)>, s0: Seq<T>, ord: spec_fn(T, T) -> Ordering, m: Seq<bool>, len: usize)
    requires sinv(b0, s0, ord), m.len() == b0.len(), forall|i: int| 0 <= i < b0.len() ==> #[trigger] m[i] == (b0[i].0 < len)
    ensures sinv(mask_filter(b0, m), trunc(s0, len), ord)
{
    let f = mask_filter(b0, m);
    let s1 = trunc(s0, len);
    lemma_mf(b0, m);
    let ix = choose|ix: Seq<int>| #[trigger] kept_ix(b0, m, f, ix);
    assert forall|q: int| 0 <= q < f.len() implies (#[trigger] f[q]).0 < s1.len() && s1[f[q].0 as int] == f[q].1 by {
        let i = ix[q];
        assert(f[q] == b0[i] && m[i]);
        assert(b0[i].0 < s0.len() && s0[b0[i].0 as int] == b0[i].1);
    }
    assert forall|q: int, r: int| 0 <= q < r < f.len() implies (#[trigger] f[q]).0 != (#[trigger] f[r]).0 by {
        assert(ix[q] < ix[r]);
        assert(f[q] == b0[ix[q]] && f[r] == b0[ix[r]]);
        assert(b0[ix[q]].0 != b0[ix[r]].0);
    }
    assert forall|q: int, r: int| 0 <= q < r < f.len() implies le(ord, (#[trigger] f[q]).1, (#[trigger] f[r]).1) by {
        assert(ix[q] < ix[r]);
        assert(f[q] == b0[ix[q]] && f[r] == b0[ix[r]]);
        assert(le(ord, b0[ix[q]].1, b0[ix[r]].1));
    }
    // as many entries as source positions below the new length
    let tf = Seq::new(f.len(), |q: int| f[q].0 as int);
    assert forall|q: int, r: int| 0 <= q < tf.len() && 0 <= r < tf.len() && q != r implies tf[q] != tf[r] by {
        if q < r { assert(f[q].0 != f[r].0); } else { assert(f[r].0 != f[q].0); }
    }
    tf.unique_seq_to_set();
    let rg = set_int_range(0, s1.len() as int);
    lemma_int_range(0, s1.len() as int);
    assert forall|k: int| rg.contains(k) implies tf.to_set().contains(k) by {
        lemma_tag_present(b0, s0, k);
        let i = choose|i: int| 0 <= i < b0.len() && (#[trigger] b0[i]).0 == k;
        assert(m[i]);
        let q = choose|q: int| 0 <= q < f.len() && #[trigger] ix[q] == i;
        assert(f[q] == b0[i]);
        assert(tf[q] == k);
    }
    assert forall|k: int| tf.to_set().contains(k) implies rg.contains(k) by {
        let q = choose|q: int| 0 <= q < tf.len() && tf[q] == k;
        assert(f[q].0 < s1.len());
    }
    assert(tf.to_set() =~= rg);
}
// the fast path of the merge loop: `compare(first new, last buffered)` is not Less
pub proof fn lemma_ge_le<T>(ord: spec_fn(T, T) -> Ordering, a: T, b: T)
    requires total_preorder(ord), ord(a, b) != Ordering::Less
    ensures le(ord, b, a)
{
    reveal(total_preorder);
    if ord(b, a) == Ordering::Greater { assert(ord(a, b) == Ordering::Less); }
}
// the comparator on entries is the comparator on their items
pub proof fn lemma_pair_ord<T>(ord: spec_fn(T, T) -> Ordering)
    requires total_preorder(ord)
    ensures forall|a: (usize, T), b: (usize, T)| (#[trigger] (pair_ord(ord))(a, b) == Ordering::Less) <==> ((pair_ord(ord))(b, a) == Ordering::Greater),
        forall|a: (usize, T), b: (usize, T), c: (usize, T)| #[trigger] (pair_ord(ord))(a, b) != Ordering::Greater && #[trigger] (pair_ord(ord))(b, c) != Ordering::Greater ==> (pair_ord(ord))(a, c) != Ordering::Greater
{
    reveal(total_preorder);
}
// the property's own words: the view is a permutation of the source (`p` = the tags) and ordered by the comparison
pub proof fn lemma_view_is_sorted_permutation<T>(buf: Seq<(usize, T)>, s: Seq<T>, ord: spec_fn(T, T) -> Ordering)
    requires sinv(buf, s, ord)
    ensures permuted(s, vals(buf), Seq::new(buf.len(), |i: int| buf[i].0 as int)),
        forall|i: int, j: int| 0 <= i < j < vals(buf).len() ==> ord(#[trigger] vals(buf)[i], #[trigger] vals(buf)[j]) != Ordering::Greater
{
    let p = Seq::new(buf.len(), |i: int| buf[i].0 as int);
    assert forall|i: int| 0 <= i < s.len() implies 0 <= #[trigger] p[i] < s.len() by { assert(buf[i].0 < s.len()); }
    assert forall|i: int, j: int| 0 <= i < j < s.len() implies p[i] != p[j] by { assert(buf[i].0 != buf[j].0); }
    assert forall|i: int| 0 <= i < vals(buf).len() implies #[trigger] vals(buf)[i] == s[p[i]] by { assert(s[buf[i].0 as int] == buf[i].1); }
    assert forall|i: int, j: int| 0 <= i < j < vals(buf).len() implies ord(#[trigger] vals(buf)[i], #[trigger] vals(buf)[j]) != Ordering::Greater by {
        assert(le(ord, buf[i].1, buf[j].1));
    }
}
// a queue of diffs seen from its front: the first is applied first
pub proof fn lemma_apply_all_front<T>(ds: Seq<VectorDiff<T>>, s: Seq<T>)
    requires ds.len() > 0
    ensures apply_all(ds, s) == apply_all(ds.drop_first(), apply(ds[0], s)),
        all_applicable(ds, s) == (applicable(ds[0], s) && all_applicable(ds.drop_first(), apply(ds[0], s)))
    decreases ds.len()
{
    let e = Seq::<VectorDiff<T>>::empty();
    let s1 = apply(ds[0], s);
    if ds.len() == 1 {
        assert(ds.drop_last() =~= e);
        assert(ds.drop_first() =~= e);
        assert(ds.last() == ds[0]);
        assert(apply_all(e, s) == s && all_applicable(e, s));
        assert(apply_all(e, s1) == s1 && all_applicable(e, s1));
        assert(apply_all(ds, s) == apply(ds.last(), apply_all(ds.drop_last(), s)));
        assert(all_applicable(ds, s) == (all_applicable(ds.drop_last(), s) && applicable(ds.last(), apply_all(ds.drop_last(), s))));
    } else {
        let f = ds.drop_first();
        lemma_apply_all_front(ds.drop_last(), s);
        assert(f.drop_last() =~= ds.drop_last().drop_first());
        assert(ds.drop_last()[0] == ds[0]);
        assert(f.last() == ds.last());
        assert(apply_all(ds, s) == apply(ds.last(), apply_all(ds.drop_last(), s)));
        assert(apply_all(f, s1) == apply(f.last(), apply_all(f.drop_last(), s1)));
        assert(all_applicable(ds, s) == (all_applicable(ds.drop_last(), s) && applicable(ds.last(), apply_all(ds.drop_last(), s))));
        assert(all_applicable(f, s1) == (all_applicable(f.drop_last(), s1) && applicable(f.last(), apply_all(f.drop_last(), s1))));
    }
}
pub open spec fn queue<T>(b: SmallVec<[VectorDiff<T>; 2]>) -> Seq<VectorDiff<T>> { b@.reverse() }
// a consumer that has rebuilt `v` and still gets the queued diffs `q` ends up with the buffer's view
pub open spec fn pending_ok<T>(q: Seq<VectorDiff<T>>, v: Seq<T>, buf: Seq<(usize, T)>) -> bool {
    all_applicable(q, v) && apply_all(q, v) == vals(buf)
}
pub proof fn lemma_pending_front<T>(q: Seq<VectorDiff<T>>, d: VectorDiff<T>, rest: Seq<VectorDiff<T>>, v: Seq<T>, buf: Seq<(usize, T)>)
    requires pending_ok(q, v, buf), q =~= seq![d] + rest
    ensures applicable(d, v), pending_ok(rest, apply(d, v), buf)
{
    lemma_apply_all_front(q, v);
    assert(q.drop_first() =~= rest);
}
pub proof fn lemma_pending_empty<T>(v: Seq<T>, buf: Seq<(usize, T)>)
    ensures pending_ok(Seq::<VectorDiff<T>>::empty(), v, buf) == (v == vals(buf))
{
    assert(apply_all(Seq::<VectorDiff<T>>::empty(), v) == v);
}
