// Vocabulary for the batched flavour of the poll loops of Head / Tail / Skip: the stateful per-diff closure chained over a batch.
pub open spec fn same_effect<T>(a: Seq<VectorDiff<T>>, b: Seq<VectorDiff<T>>) -> bool {
    forall|s: Seq<T>| #[trigger] all_emittable(b, s) ==> all_emittable(a, s) && apply_all(a, s) =~= apply_all(b, s)
}
pub open spec fn flatten<D>(outs: Seq<Seq<D>>) -> Seq<D>
    decreases outs.len()
{
    if outs.len() == 0 { Seq::empty() } else { flatten(outs.drop_last()) + outs.last() }
}
// two queues one after the other
pub proof fn lemma_apply_concat<T>(a: Seq<VectorDiff<T>>, b: Seq<VectorDiff<T>>, s: Seq<T>)
    ensures apply_all(a + b, s) == apply_all(b, apply_all(a, s)),
        all_emittable(a + b, s) == (all_emittable(a, s) && all_emittable(b, apply_all(a, s)))
    decreases b.len()
{
    let e = Seq::<VectorDiff<T>>::empty();
    let sa = apply_all(a, s);
    if b.len() == 0 {
        assert(a + b =~= a);
        assert(b =~= e);
        assert(apply_all(e, sa) == sa && all_emittable(e, sa));
    } else {
        lemma_apply_concat(a, b.drop_last(), s);
        let ab = a + b;
        assert(ab.drop_last() =~= a + b.drop_last());
        assert(ab.last() == b.last());
        assert(apply_all(ab, s) == apply(ab.last(), apply_all(ab.drop_last(), s)));
        assert(all_emittable(ab, s) == (all_emittable(ab.drop_last(), s) && emittable(ab.last(), apply_all(ab.drop_last(), s))));
        assert(apply_all(b, sa) == apply(b.last(), apply_all(b.drop_last(), sa)));
        assert(all_emittable(b, sa) == (all_emittable(b.drop_last(), sa) && emittable(b.last(), apply_all(b.drop_last(), sa))));
    }
}
// `bufs[i]` is the replica before `diffs[i]`, `outs[i]` what the closure returned for it; `view` is the adapter's view of a replica
pub open spec fn vsteps<T>(bufs: Seq<Seq<T>>, diffs: Seq<VectorDiff<T>>, outs: Seq<Seq<VectorDiff<T>>>, view: spec_fn(Seq<T>) -> Seq<T>) -> bool {
    &&& bufs.len() == diffs.len() + 1 && outs.len() == diffs.len()
    &&& forall|i: int| 0 <= i < diffs.len() ==> bufs[i + 1] =~= apply(diffs[i], bufs[i]) && all_emittable(#[trigger] outs[i], view(bufs[i])) && apply_all(outs[i], view(bufs[i])) =~= view(bufs[i + 1])
}
pub proof fn lemma_vsteps_view<T>(bufs: Seq<Seq<T>>, diffs: Seq<VectorDiff<T>>, outs: Seq<Seq<VectorDiff<T>>>, view: spec_fn(Seq<T>) -> Seq<T>, k: int)
    requires vsteps(bufs, diffs, outs, view), 0 <= k <= diffs.len()
    ensures bufs[k] =~= apply_all(diffs.subrange(0, k), bufs[0]),
        all_emittable(flatten(outs.subrange(0, k)), view(bufs[0])),
        apply_all(flatten(outs.subrange(0, k)), view(bufs[0])) =~= view(bufs[k])
    decreases k
{
    let v0 = view(bufs[0]);
    let e = Seq::<VectorDiff<T>>::empty();
    if k == 0 {
        assert(diffs.subrange(0, 0) =~= Seq::<VectorDiff<T>>::empty());
        assert(outs.subrange(0, 0) =~= Seq::<Seq<VectorDiff<T>>>::empty());
        assert(flatten(outs.subrange(0, 0)) =~= e);
        assert(apply_all(diffs.subrange(0, 0), bufs[0]) == bufs[0]);
        assert(apply_all(e, v0) == v0 && all_emittable(e, v0));
    } else {
        lemma_vsteps_view(bufs, diffs, outs, view, k - 1);
        let i = k - 1;
        assert(all_emittable(outs[i], view(bufs[i])));
        let ok = outs.subrange(0, k);
        assert(ok.drop_last() =~= outs.subrange(0, i));
        assert(ok.last() == outs[i]);
        let fm = flatten(outs.subrange(0, i));
        assert(flatten(ok) == fm + outs[i]);
        lemma_apply_concat(fm, outs[i], v0);
        let dk = diffs.subrange(0, k);
        assert(dk.drop_last() =~= diffs.subrange(0, i));
        assert(dk.last() == diffs[i]);
        assert(apply_all(dk, bufs[0]) == apply(dk.last(), apply_all(dk.drop_last(), bufs[0])));
        // view(bufs[i]) is the state the first i outputs lead to (extensionally), so the i-th output applies to it
        assert(apply_all(fm, v0) =~= view(bufs[i]));
    }
}
