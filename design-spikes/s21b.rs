use vstd::prelude::*;
verus! {
pub mod base {
use vstd::prelude::*;
pub struct Waker { pub id: int }
#[verifier::external_body]
pub struct Context<'a> { w: &'a u8 }
impl<'a> Context<'a> { pub uninterp spec fn spec_waker(&self) -> Waker; }
pub enum Poll<T> { Ready(T), Pending }
impl<T> Poll<T> {
    #[verifier::external_body]
    pub fn map<U, F: FnOnce(T) -> U>(self, f: F) -> (r: Poll<U>)
        requires self is Ready ==> call_requires(f, (self->Ready_0,)),
        ensures self is Pending ==> r is Pending,
            self is Ready ==> r is Ready && call_ensures(f, (self->Ready_0,), r->Ready_0),
    { unimplemented!() }
}
// caller view of state.rs
#[verifier::external_body]
#[verifier::accept_recursive_types(T)]
pub struct ObservableState<T> { p: std::marker::PhantomData<T> }
pub uninterp spec fn registered<T>(s: ObservableState<T>, w: Waker) -> bool;
impl<T> ObservableState<T> {
    pub uninterp spec fn value(&self) -> T;
    pub uninterp spec fn ver(&self) -> u64;
    #[verifier::external_body]
    pub fn get(&self) -> (r: &T) ensures *r == self.value() { unimplemented!() }
    #[verifier::external_body]
    pub fn version(&self) -> (r: u64) ensures r == self.ver() { unimplemented!() }
    #[verifier::external_body]
    pub fn poll_update(&self, observed_version: &mut u64, cx: &Context<'_>) -> (res: Poll<Option<()>>)
        ensures
            self.ver() == 0 ==> res == Poll::Ready(None::<()>) && *final(observed_version) == *old(observed_version),
            self.ver() != 0 && *old(observed_version) < self.ver() ==> res == Poll::Ready(Some(())) && *final(observed_version) == self.ver(),
            self.ver() != 0 && *old(observed_version) >= self.ver() ==> res == Poll::<Option<()>>::Pending && *final(observed_version) == *old(observed_version) && registered(*self, cx.spec_waker()),
    { unimplemented!() }
}
#[verifier::external_body]
#[verifier::accept_recursive_types(S)]
pub struct SharedReadLock<S> { p: std::marker::PhantomData<S> }
impl<S> SharedReadLock<S> {
    pub uninterp spec fn cur(&self) -> S;
    #[verifier::external_body]
    pub fn lock(&self) -> (g: SharedReadGuard<'_, S>) ensures g.target() == self.cur() { unimplemented!() }
}
impl<S> Clone for SharedReadLock<S> {
    #[verifier::external_body]
    fn clone(&self) -> (r: Self) ensures r.cur() == self.cur() { unimplemented!() }
}
#[verifier::external_body]
#[verifier::accept_recursive_types(S)]
pub struct SharedReadGuard<'a, S> { p: std::marker::PhantomData<&'a S> }
impl<'a, S> SharedReadGuard<'a, S> { pub uninterp spec fn target(&self) -> S; }
impl<'a, S> std::ops::Deref for SharedReadGuard<'a, S> {
    type Target = S;
    #[verifier::external_body]
    fn deref(&self) -> (r: &S) ensures *r == self.target() { unimplemented!() }
}
pub mod readlock { pub use super::SharedReadLock; }
}
pub mod axioms {
use vstd::prelude::*;
pub broadcast axiom fn axiom_clone_eq<T: Clone>(a: T, b: T)
    requires #[trigger] call_ensures(T::clone, (&a,), b)
    ensures a == b;
}
pub mod code {
use vstd::prelude::*;
use super::base::*;
broadcast use super::axioms::axiom_clone_eq;
pub struct Subscriber<T> {
    pub state: SharedReadLock<ObservableState<T>>,
    pub observed_version: u64,
}
pub struct ObservableReadGuard<'a, T: 'a> {
    pub inner: SharedReadGuard<'a, ObservableState<T>>,
}
impl<'a, T: 'a> ObservableReadGuard<'a, T> {
    pub fn new(inner: SharedReadGuard<'a, ObservableState<T>>) -> (r: Self) ensures r.inner == inner {
        Self { inner }
    }
}
impl<T> Subscriber<T> {
    pub fn new(state: readlock::SharedReadLock<ObservableState<T>>, version: u64) -> Self {
        Self { state, observed_version: version }
    }
    pub fn next_now(&mut self) -> (res: T)
    where
        T: Clone,
        ensures res == old(self).state.cur().value(), final(self).observed_version == old(self).state.cur().ver(), final(self).state == old(self).state,
    {
        let lock = self.state.lock();
        self.observed_version = lock.version();
        lock.get().clone()
    }
    pub fn get(&self) -> (res: T)
    where
        T: Clone,
        ensures res == self.state.cur().value(),
    {
        self.read().clone()
    }
    pub fn next_ref_now(&mut self) -> ObservableReadGuard<'_, T> {
        let lock = self.state.lock();
        self.observed_version = lock.version();
        ObservableReadGuard::new(lock)
    }
    pub fn read(&self) -> (g: ObservableReadGuard<'_, T>)
        ensures g.inner.target() == self.state.cur(),
    {
        ObservableReadGuard::new(self.state.lock())
    }

    fn poll_next_ref(&mut self, cx: &Context<'_>) -> (res: Poll<Option<ObservableReadGuard<'_, T>>>)
        ensures
            final(self).state == old(self).state,
            ({ let s = old(self).state.cur(); let o = old(self).observed_version;
               &&& (s.ver() == 0 ==> res is Ready && res->Ready_0 is None && final(self).observed_version == o)
               &&& (s.ver() != 0 && o < s.ver() ==> res is Ready && res->Ready_0 is Some && res->Ready_0->Some_0.inner.target() == s && final(self).observed_version == s.ver())
               &&& (s.ver() != 0 && o >= s.ver() ==> res is Pending && final(self).observed_version == o && registered(s, cx.spec_waker())) }),
    {
        let state = self.state.lock();
        state
            .poll_update(&mut self.observed_version, cx)
            .map(|ready| -> (r: Option<ObservableReadGuard<'_, T>>) ensures (ready is None ==> r is None), (ready is Some ==> r is Some && r->Some_0.inner == state) { ready.map(|_w| -> (g: ObservableReadGuard<'_, T>) ensures g.inner == state { ObservableReadGuard::new(state) }) })
    }
}
impl<T> Subscriber<T> {
    pub fn reset(&mut self) {
        self.observed_version = 0;
    }
    pub fn clone_reset(&self) -> Self
    {
        Self { state: self.state.clone(), observed_version: 0 }
    }
}
impl<T> std::ops::Deref for ObservableReadGuard<'_, T> {
    type Target = T;

    fn deref(&self) -> (r: &Self::Target)
        ensures *r == self.inner.target().value(),
    {
        self.inner.get()
    }
}
}
} // verus!
fn main() {}
