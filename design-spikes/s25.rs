use vstd::prelude::*;
verus! {
pub mod base {
use vstd::prelude::*;
#[verifier::external_body] #[verifier::accept_recursive_types(T)]
pub struct ObservableState<T> { p: std::marker::PhantomData<T> }
#[verifier::external_body] #[verifier::accept_recursive_types(T)]
pub struct RwLock<T> { p: std::marker::PhantomData<T> }
// abstract heap: number of live strong / weak handles per allocation, as seen at the time of a call
pub uninterp spec fn strong_of(alloc: int) -> nat;
pub uninterp spec fn weak_of(alloc: int) -> nat;
#[verifier::external_body] #[verifier::accept_recursive_types(T)]
pub struct Arc<T> { p: std::marker::PhantomData<T> }
#[verifier::external_body] #[verifier::accept_recursive_types(T)]
pub struct Weak<T> { p: std::marker::PhantomData<T> }
impl<T> Arc<T> {
    pub uninterp spec fn alloc(&self) -> int;
    #[verifier::external_body]
    pub fn new(v: T) -> (r: Self) { unimplemented!() }
    #[verifier::external_body]
    pub fn strong_count(this: &Self) -> (r: usize) ensures r == strong_of(this.alloc()), r >= 1 { unimplemented!() }
    #[verifier::external_body]
    pub fn weak_count(this: &Self) -> (r: usize) ensures r == weak_of(this.alloc()) { unimplemented!() }
    #[verifier::external_body]
    pub fn downgrade(this: &Self) -> (r: Weak<T>) ensures r.alloc() == this.alloc() { unimplemented!() }
}
impl<T> Clone for Arc<T> {
    #[verifier::external_body]
    fn clone(&self) -> (r: Self) ensures r.alloc() == self.alloc() { unimplemented!() }
}
impl<T> Weak<T> {
    pub uninterp spec fn alloc(&self) -> int;
    #[verifier::external_body]
    pub fn upgrade(&self) -> (r: Option<Arc<T>>) ensures r is Some ==> r->Some_0.alloc() == self.alloc(), (r is Some) == (strong_of(self.alloc()) > 0) { unimplemented!() }
}
impl<T> Clone for Weak<T> {
    #[verifier::external_body]
    fn clone(&self) -> (r: Self) ensures r.alloc() == self.alloc() { unimplemented!() }
}
}
pub mod code {
use vstd::prelude::*;
use super::base::*;
pub struct SharedObservable<T> {
    pub state: Arc<RwLock<ObservableState<T>>>,
    pub _num_clones: Arc<()>,
}
pub struct WeakObservable<T> {
    pub state: Weak<RwLock<ObservableState<T>>>,
    pub _num_clones: Weak<()>,
}
impl<T> SharedObservable<T> {
    pub fn from_inner(state: Arc<RwLock<ObservableState<T>>>) -> Self {
        Self { state, _num_clones: Arc::new(()) }
    }
    pub fn observable_count(&self) -> usize {
        Arc::strong_count(&self._num_clones)
    }
    pub fn subscriber_count(&self) -> usize {
        self.strong_count() - self.observable_count()
    }
    pub fn strong_count(&self) -> usize {
        Arc::strong_count(&self.state)
    }
    pub fn weak_count(&self) -> usize {
        Arc::weak_count(&self.state)
    }
    pub fn downgrade(&self) -> WeakObservable<T> {
        WeakObservable {
            state: Arc::downgrade(&self.state),
            _num_clones: Arc::downgrade(&self._num_clones),
        }
    }
}
impl<T> Clone for SharedObservable<T> {
    fn clone(&self) -> Self {
        Self { state: self.state.clone(), _num_clones: self._num_clones.clone() }
    }
}
impl<T> WeakObservable<T> {
    pub fn upgrade(&self) -> Option<SharedObservable<T>> {
        let state = Weak::upgrade(&self.state)?;
        let _num_clones = Weak::upgrade(&self._num_clones)?;
        Some(SharedObservable { state, _num_clones })
    }
}
}
} // verus!
fn main() {}
