use vstd::prelude::*;
verus! {
pub mod base {
use vstd::prelude::*;


#[verifier::external_body]
#[verifier::accept_recursive_types(T)]
pub struct Vector<T> { inner: std::marker::PhantomData<T> }

impl<T> View for Vector<T> {
    type V = Seq<T>;
    uninterp spec fn view(&self) -> Seq<T>;
}

impl<T: Clone> Vector<T> {
    #[verifier::external_body]
    pub fn len(&self) -> (r: usize) ensures r == self@.len() { unimplemented!() }
    pub broadcast axiom fn axiom_len_fits(&self) ensures #[trigger] self@.len() <= usize::MAX;
    #[verifier::external_body]
    pub fn truncate(&mut self, len: usize)
        requires len <= old(self)@.len()
        ensures final(self)@ == old(self)@.subrange(0, len as int)
    { unimplemented!() }
    #[verifier::external_body]
    pub fn get(&self, i: usize) -> (r: Option<&T>)
        ensures (i < self@.len()) ==> r == Some(&self@[i as int]),
                (i >= self@.len()) ==> r.is_none()
    { unimplemented!() }
}


impl<T: Clone> Clone for Vector<T> {
    #[verifier::external_body]
    fn clone(&self) -> (r: Self) ensures r@ == self@ { unimplemented!() }
}
impl<T: Clone> Vector<T> {
    #[verifier::external_body]
    pub fn is_empty(&self) -> (r: bool) ensures r == (self@.len() == 0) { unimplemented!() }
    #[verifier::external_body]
    pub fn append(&mut self, o: Vector<T>) ensures final(self)@ == old(self)@ + o@ { unimplemented!() }
    #[verifier::external_body]
    pub fn clear(&mut self) ensures final(self)@ == Seq::<T>::empty() { unimplemented!() }
    #[verifier::external_body]
    pub fn push_front(&mut self, v: T) ensures final(self)@ == seq![v] + old(self)@ { unimplemented!() }
    #[verifier::external_body]
    pub fn push_back(&mut self, v: T) ensures final(self)@ == old(self)@.push(v) { unimplemented!() }
    #[verifier::external_body]
    pub fn pop_front(&mut self) -> (r: Option<T>)
        ensures old(self)@.len() == 0 ==> r.is_none() && final(self)@ == old(self)@,
                old(self)@.len() > 0 ==> r == Some(old(self)@[0]) && final(self)@ == old(self)@.subrange(1, old(self)@.len() as int)
    { unimplemented!() }
    #[verifier::external_body]
    pub fn pop_back(&mut self) -> (r: Option<T>)
        ensures old(self)@.len() == 0 ==> r.is_none() && final(self)@ == old(self)@,
                old(self)@.len() > 0 ==> r == Some(old(self)@.last()) && final(self)@ == old(self)@.subrange(0, old(self)@.len() - 1)
    { unimplemented!() }
    #[verifier::external_body]
    pub fn insert(&mut self, i: usize, v: T) requires i <= old(self)@.len() ensures final(self)@ == old(self)@.insert(i as int, v) { unimplemented!() }
    #[verifier::external_body]
    pub fn set(&mut self, i: usize, v: T) -> (r: T) requires i < old(self)@.len() ensures final(self)@ == old(self)@.update(i as int, v), r == old(self)@[i as int] { unimplemented!() }
    #[verifier::external_body]
    pub fn remove(&mut self, i: usize) -> (r: T) requires i < old(self)@.len() ensures final(self)@ == old(self)@.remove(i as int), r == old(self)@[i as int] { unimplemented!() }
}
#[verifier::external_body]
#[verifier::accept_recursive_types(M)]
pub struct Sender<M> { p: std::marker::PhantomData<M> }
impl<M> Sender<M> {
    pub uninterp spec fn log(&self) -> Seq<M>;
    pub uninterp spec fn receivers(&self) -> nat;
    #[verifier::external_body]
    pub fn receiver_count(&self) -> (r: usize) ensures r == self.receivers() { unimplemented!() }
    #[verifier::external_body]
    pub fn send(&mut self, m: M) -> (r: Result<usize, ()>)
        ensures final(self).receivers() == old(self).receivers(),
            old(self).receivers() > 0 ==> final(self).log() == old(self).log().push(m) && r == Ok::<usize, ()>(old(self).receivers() as usize),
            old(self).receivers() == 0 ==> final(self).log() == old(self).log() && r is Err,
    { unimplemented!() }
}

#[verifier::external_body]
#[verifier::accept_recursive_types(T)]
pub struct ArrayVec<T, const N: usize> { inner: std::marker::PhantomData<T> }
impl<T, const N: usize> View for ArrayVec<T, N> {
    type V = Seq<T>;
    uninterp spec fn view(&self) -> Seq<T>;
}
impl<T, const N: usize> ArrayVec<T, N> {
    #[verifier::external_body]
    pub fn new() -> (r: Self) ensures r@ == Seq::<T>::empty() { unimplemented!() }
    #[verifier::external_body]
    pub fn push(&mut self, v: T)
        requires old(self)@.len() < N
        ensures final(self)@ == old(self)@.push(v)
    { unimplemented!() }
}


pub open spec fn applicable<T>(d: VectorDiff<T>, s: Seq<T>) -> bool {
    match d {
        VectorDiff::Insert { index, value } => index <= s.len(),
        VectorDiff::Set { index, value } => index < s.len(),
        VectorDiff::Remove { index } => index < s.len(),
        VectorDiff::PopFront => s.len() > 0,
        VectorDiff::PopBack => s.len() > 0,
        _ => true,
    }
}
// what a source (ObservableVector) can emit on state s
pub open spec fn emittable<T>(d: VectorDiff<T>, s: Seq<T>) -> bool {
    applicable(d, s) && match d {
        VectorDiff::Truncate { length } => length < s.len(),
        _ => true,
    }
}

pub open spec fn apply<T>(d: VectorDiff<T>, s: Seq<T>) -> Seq<T> {
    match d {
        VectorDiff::Append { values } => s + values@,
        VectorDiff::Clear => Seq::empty(),
        VectorDiff::PushFront { value } => seq![value] + s,
        VectorDiff::PushBack { value } => s.push(value),
        VectorDiff::PopFront => if s.len() > 0 { s.subrange(1, s.len() as int) } else { s },
        VectorDiff::PopBack => if s.len() > 0 { s.subrange(0, s.len() - 1) } else { s },
        VectorDiff::Insert { index, value } => s.insert(index as int, value),
        VectorDiff::Set { index, value } => s.update(index as int, value),
        VectorDiff::Remove { index } => s.remove(index as int),
        VectorDiff::Truncate { length } => if length < s.len() { s.subrange(0, length as int) } else { s },
        VectorDiff::Reset { values } => values@,
    }
}

pub open spec fn apply_all<T>(ds: Seq<VectorDiff<T>>, s: Seq<T>) -> Seq<T>
    decreases ds.len()
{
    if ds.len() == 0 { s } else { apply(ds.last(), apply_all(ds.drop_last(), s)) }
}
pub open spec fn all_applicable<T>(ds: Seq<VectorDiff<T>>, s: Seq<T>) -> bool
    decreases ds.len()
{
    if ds.len() == 0 { true } else { all_applicable(ds.drop_last(), s) && applicable(ds.last(), apply_all(ds.drop_last(), s)) }
}

pub open spec fn head<T>(s: Seq<T>, limit: usize) -> Seq<T> {
    if s.len() <= limit { s } else { s.subrange(0, limit as int) }
}

pub open spec fn head_pre<T>(diff: VectorDiff<T>, prev_len: usize, new_buf: Seq<T>, old_buf: Seq<T>) -> bool {
    prev_len == old_buf.len() && emittable(diff, old_buf) && new_buf == apply(diff, old_buf)
}

pub assume_specification<T, E> [std::result::Result::<T, E>::unwrap_or] (r: std::result::Result<T, E>, d: T) -> (o: T) ensures o == (match r { Ok(v) => v, Err(_) => d });


pub fn min(a: usize, b: usize) -> (r: usize) ensures r == if a <= b { a } else { b } { if a <= b { a } else { b } }

/// A change to an [`ObservableVector`].
pub enum VectorDiff<T> {
    /// Multiple elements were appended.
    Append {
        /// The appended elements.
        values: Vector<T>,
    },
    /// The vector was cleared.
    Clear,
    /// An element was added at the front.
    PushFront {
        /// The new element.
        value: T,
    },
    /// An element was added at the back.
    PushBack {
        /// The new element.
        value: T,
    },
    /// The element at the front was removed.
    PopFront,
    /// The element at the back was removed.
    PopBack,
    /// An element was inserted at the given position.
    Insert {
        /// The index of the new element.
        ///
        /// The element that was previously at that index as well as all the
        /// ones after it were shifted to the right.
        index: usize,
        /// The new element.
        value: T,
    },
    /// A replacement of the previous value at the given position.
    Set {
        /// The index of the element that was replaced.
        index: usize,
        /// The new element.
        value: T,
    },
    /// Removal of an element.
    Remove {
        /// The index that the removed element had.
        index: usize,
    },
    /// Truncation of the vector.
    Truncate {
        /// The number of elements that remain.
        length: usize,
    },
    /// The subscriber lagged too far behind, and the next update that should
    /// have been received has already been discarded from the internal buffer.
    Reset {
        /// The full list of elements.
        values: Vector<T>,
    },
}

pub open spec fn tail<T>(s: Seq<T>, limit: usize) -> Seq<T> {
    if s.len() <= limit { s } else { s.subrange(s.len() - limit, s.len() as int) }
}
pub open spec fn rep<A>(d: A, n: nat) -> Seq<A> { Seq::new(n, |i: int| d) }

#[verifier::external_body]
#[verifier::accept_recursive_types(A)]
pub struct SmallVec<A> { p: std::marker::PhantomData<A> }
pub trait ArrItem { type Item; }
impl<T> ArrItem for [T; 2] { type Item = T; }
impl<A: ArrItem> View for SmallVec<A> { type V = Seq<A::Item>; uninterp spec fn view(&self) -> Seq<A::Item>; }
impl<A: ArrItem> SmallVec<A> {
    #[verifier::external_body]
    pub fn new() -> (r: Self) ensures r@ == Seq::<A::Item>::empty() { unimplemented!() }
    #[verifier::external_body]
    pub fn push(&mut self, v: A::Item) ensures final(self)@ == old(self)@.push(v) { unimplemented!() }
    #[verifier::external_body]
    pub fn extend(&mut self, it: SeqIt<A::Item>) ensures final(self)@ == old(self)@ + it@ { unimplemented!() }
}
#[verifier::external_body]
#[verifier::accept_recursive_types(A)]
pub struct SeqIt<A> { p: std::marker::PhantomData<A> }
impl<A> View for SeqIt<A> { type V = Seq<A>; uninterp spec fn view(&self) -> Seq<A>; }
impl<A> SeqIt<A> {
    #[verifier::external_body]
    pub fn rev(self) -> (r: SeqIt<A>) ensures r@ == self@.reverse() { unimplemented!() }
    #[verifier::external_body]
    pub fn skip(self, n: usize) -> (r: SeqIt<A>) ensures r@ == (if n <= self@.len() { self@.subrange(n as int, self@.len() as int) } else { Seq::empty() }) { unimplemented!() }
    #[verifier::external_body]
    pub fn take(self, n: usize) -> (r: SeqIt<A>) ensures r@ == (if n <= self@.len() { self@.subrange(0, n as int) } else { self@ }) { unimplemented!() }
    #[verifier::external_body]
    pub fn map<B, F: Fn(A) -> B>(self, f: F) -> (r: SeqIt<B>)
        requires forall|a: A| call_requires(f, (a,)),
        ensures r@.len() == self@.len(), forall|i: int| 0 <= i < self@.len() ==> call_ensures(f, (self@[i],), #[trigger] r@[i])
    { unimplemented!() }
}
impl<'a, T: Clone> SeqIt<&'a T> {
    #[verifier::external_body]
    pub fn cloned(self) -> (r: SeqIt<T>) ensures r@.len() == self@.len(), forall|i: int| 0 <= i < self@.len() ==> #[trigger] r@[i] == *self@[i] { unimplemented!() }
}
#[verifier::external_body]
#[verifier::accept_recursive_types(A)]
pub struct RepeatIt<A> { p: std::marker::PhantomData<A> }
impl<A> RepeatIt<A> {
    pub uninterp spec fn elem(&self) -> A;
    #[verifier::external_body]
    pub fn take(self, n: usize) -> (r: SeqIt<A>) ensures r@ == rep(self.elem(), n as nat) { unimplemented!() }
}
#[verifier::external_body]
pub fn repeat<A>(a: A) -> (r: RepeatIt<A>) ensures r.elem() == a { unimplemented!() }

impl<T: Clone> Vector<T> {
    #[verifier::external_body]
    pub fn new() -> (r: Self) ensures r@ == Seq::<T>::empty() { unimplemented!() }
    #[verifier::external_body]
    pub fn iter(&self) -> (r: SeqIt<&T>) ensures r@.len() == self@.len(), forall|i: int| 0 <= i < self@.len() ==> *(#[trigger] r@[i]) == self@[i] { unimplemented!() }
    #[verifier::external_body]
    pub fn split_at(self, i: usize) -> (r: (Vector<T>, Vector<T>)) requires i <= self@.len() ensures r.0@ == self@.subrange(0, i as int), r.1@ == self@.subrange(i as int, self@.len() as int) { unimplemented!() }
}

}
pub mod axioms {
use vstd::prelude::*;
pub broadcast axiom fn axiom_clone_eq<T: Clone>(a: T, b: T)
    requires #[trigger] call_ensures(T::clone, (&a,), b)
    ensures a == b;
}

pub mod lemmas {
use vstd::prelude::*;
use super::base::*;
pub broadcast proof fn lemma_apply_empty<T>(s: Seq<T>)
    ensures #[trigger] apply_all(Seq::<VectorDiff<T>>::empty(), s) == s,
{}
pub broadcast proof fn lemma_applicable_empty<T>(s: Seq<T>)
    ensures #[trigger] all_applicable(Seq::<VectorDiff<T>>::empty(), s),
{}
pub broadcast proof fn lemma_apply_push<T>(ds: Seq<VectorDiff<T>>, d: VectorDiff<T>, s: Seq<T>)
    ensures #[trigger] apply_all(ds.push(d), s) == apply(d, apply_all(ds, s)),
{
    assert(ds.push(d).drop_last() =~= ds);
}
pub broadcast proof fn lemma_applicable_push<T>(ds: Seq<VectorDiff<T>>, d: VectorDiff<T>, s: Seq<T>)
    ensures #[trigger] all_applicable(ds.push(d), s) == (all_applicable(ds, s) && applicable(d, apply_all(ds, s))),
{
    assert(ds.push(d).drop_last() =~= ds);
}
pub broadcast proof fn lemma_rep_pop_front<T>(k: nat, s: Seq<T>)
    requires k <= s.len(),
    ensures #[trigger] apply_all(rep(VectorDiff::<T>::PopFront, k), s) == s.subrange(k as int, s.len() as int),
        all_applicable(rep(VectorDiff::<T>::PopFront, k), s),
    decreases k,
{
    if k == 0 {
        assert(s.subrange(0, s.len() as int) =~= s);
    } else {
        lemma_rep_pop_front::<T>((k - 1) as nat, s);
        let r = rep(VectorDiff::<T>::PopFront, k);
        assert(r.drop_last() =~= rep(VectorDiff::<T>::PopFront, (k - 1) as nat));
        let mid = s.subrange(k - 1, s.len() as int);
        assert(mid.subrange(1, mid.len() as int) =~= s.subrange(k as int, s.len() as int));
    }
}
pub broadcast proof fn lemma_rep_pop_front_applicable<T>(k: nat, s: Seq<T>)
    requires k <= s.len(),
    ensures #[trigger] all_applicable(rep(VectorDiff::<T>::PopFront, k), s),
{
    lemma_rep_pop_front::<T>(k, s);
}

pub open spec fn push_fronts<T>(items: Seq<T>) -> Seq<VectorDiff<T>> { Seq::new(items.len(), |i: int| VectorDiff::PushFront { value: items[i] }) }
pub broadcast proof fn lemma_rep_pop_back<T>(k: nat, s: Seq<T>)
    requires k <= s.len(),
    ensures #[trigger] apply_all(rep(VectorDiff::<T>::PopBack, k), s) == s.subrange(0, s.len() - k),
        all_applicable(rep(VectorDiff::<T>::PopBack, k), s),
    decreases k,
{
    if k == 0 {
        assert(s.subrange(0, s.len() as int) =~= s);
    } else {
        lemma_rep_pop_back::<T>((k - 1) as nat, s);
        let r = rep(VectorDiff::<T>::PopBack, k);
        assert(r.drop_last() =~= rep(VectorDiff::<T>::PopBack, (k - 1) as nat));
        let mid = s.subrange(0, s.len() - (k - 1));
        assert(mid.subrange(0, mid.len() - 1) =~= s.subrange(0, s.len() - k));
    }
}
pub broadcast proof fn lemma_rep_pop_back_applicable<T>(k: nat, s: Seq<T>)
    requires k <= s.len(),
    ensures #[trigger] all_applicable(rep(VectorDiff::<T>::PopBack, k), s),
{
    lemma_rep_pop_back::<T>(k, s);
}
pub proof fn lemma_add_push_fronts<T>(ds: Seq<VectorDiff<T>>, items: Seq<T>, s: Seq<T>)
    ensures apply_all(ds + push_fronts(items), s) == items.reverse() + apply_all(ds, s),
        all_applicable(ds + push_fronts(items), s) == all_applicable(ds, s),
    decreases items.len(),
{
    if items.len() == 0 {
        assert(ds + push_fronts(items) =~= ds);
        assert(items.reverse() + apply_all(ds, s) =~= apply_all(ds, s));
    } else {
        let it0 = items.drop_last();
        lemma_add_push_fronts(ds, it0, s);
        let all = ds + push_fronts(items);
        assert(all.drop_last() =~= ds + push_fronts(it0));
        assert(all.last() == VectorDiff::PushFront { value: items.last() });
        assert(seq![items.last()] + (it0.reverse() + apply_all(ds, s)) =~= items.reverse() + apply_all(ds, s));
    }
}
pub open spec fn all_push_front<T>(m: Seq<VectorDiff<T>>) -> bool { forall|i: int| 0 <= i < m.len() ==> #[trigger] m[i] is PushFront }
pub open spec fn unpush<T>(m: Seq<VectorDiff<T>>) -> Seq<T> { Seq::new(m.len(), |i: int| m[i]->PushFront_value) }
pub broadcast proof fn lemma_add_push_fronts_b<T>(ds: Seq<VectorDiff<T>>, mapped: Seq<VectorDiff<T>>, s: Seq<T>)
    requires all_push_front(mapped),
    ensures #[trigger] apply_all(ds + mapped, s) == unpush(mapped).reverse() + apply_all(ds, s),
{
    assert(mapped =~= push_fronts(unpush(mapped)));
    lemma_add_push_fronts(ds, unpush(mapped), s);
}
pub broadcast proof fn lemma_add_push_fronts_c<T>(ds: Seq<VectorDiff<T>>, mapped: Seq<VectorDiff<T>>, s: Seq<T>)
    requires all_push_front(mapped),
    ensures #[trigger] all_applicable(ds + mapped, s) == all_applicable(ds, s),
{
    assert(mapped =~= push_fronts(unpush(mapped)));
    lemma_add_push_fronts(ds, unpush(mapped), s);
}

pub broadcast proof fn lemma_empty_add<A>(x: Seq<A>)
    ensures #[trigger] (Seq::<A>::empty() + x) == x,
{
    assert(Seq::<A>::empty() + x =~= x);
}
pub broadcast group tail_lemmas {
    lemma_apply_empty, lemma_applicable_empty, lemma_rep_pop_front_applicable, lemma_apply_push, lemma_applicable_push, lemma_rep_pop_front, lemma_empty_add, lemma_rep_pop_back, lemma_rep_pop_back_applicable, lemma_add_push_fronts_b, lemma_add_push_fronts_c, Vector::axiom_len_fits,
}
}

pub mod code {
use vstd::prelude::*;
use super::base::*;
broadcast use {super::axioms::axiom_clone_eq, super::lemmas::tail_lemmas};

proof fn dbg_append<T>(old_buf: Seq<T>, values: Seq<T>, limit: usize, k: nat)
    requires limit > 0, old_buf.len() + values.len() <= usize::MAX,
        k == (if tail(values, limit).len() <= (if old_buf.len() + tail(values, limit).len() >= limit { old_buf.len() + tail(values, limit).len() - limit } else { 0 }) { tail(values, limit).len() as int } else { (if old_buf.len() + tail(values, limit).len() >= limit { old_buf.len() + tail(values, limit).len() - limit } else { 0 }) as int }),
{
    let v2 = tail(values, limit);
    let view = tail(old_buf, limit);
    assert(k <= view.len());
    let after = apply_all(rep(VectorDiff::<T>::PopFront, k), view);
    assert(after == view.subrange(k as int, view.len() as int));
    assert(after + v2 =~= tail(old_buf + values, limit));
}

fn handle_diff__Truncate<T: Clone>(
    diff: VectorDiff<T>,
    limit: usize,
    previous_length: usize,
    buffered_vector: &Vector<T>,
) -> (res: SmallVec<[VectorDiff<T>; 2]>)
    requires buffered_vector@.len() <= usize::MAX, diff is Truncate, exists|old_buf: Seq<T>| #[trigger] head_pre(diff, previous_length, buffered_vector@, old_buf),
    ensures
        (forall|old_buf: Seq<T>| #[trigger] head_pre(diff, previous_length, buffered_vector@, old_buf) ==>
            all_applicable(res@, tail(old_buf, limit)) && apply_all(res@, tail(old_buf, limit)) =~= tail(buffered_vector@, limit)),
{
    // If the limit is zero, we have nothing to do.
    if limit == 0 {
        return SmallVec::new();
    }

    let index_of_limit = previous_length.saturating_sub(limit);
    let is_full = previous_length >= limit;
    let mut res = SmallVec::new();

    match diff {
        VectorDiff::Append { values } => {
            let values = values.truncate_from_end(limit);

            res.extend(
                repeat(VectorDiff::PopFront).take(min(
                    values.len(),
                    (previous_length + values.len()).saturating_sub(limit),
                )),
            );
            res.push(VectorDiff::Append { values });
        }

        VectorDiff::Clear => {
            res.push(VectorDiff::Clear);
        }

        VectorDiff::PushFront { value } => {
            if is_full {
                // Ignore the diff.
            } else {
                // There is space for this new item.
                res.push(VectorDiff::PushFront { value });
            }
        }

        VectorDiff::PushBack { value } => {
            if is_full {
                // Create 1 free space.
                res.push(VectorDiff::PopFront);
            }

            // There is space for this new item.
            res.push(VectorDiff::PushBack { value });
        }

        VectorDiff::PopFront => {
            if previous_length > limit {
                // Pop front outside the limit, ignore the diff.
            } else {
                res.push(VectorDiff::PopFront);
            }
        }

        VectorDiff::PopBack => {
            res.push(VectorDiff::PopBack);

            if previous_length > limit {
                if let Some(diff) = buffered_vector.get(index_of_limit.saturating_sub(1)) {
                    // There is a previously-truncated item, push front.
                    res.push(VectorDiff::PushFront { value: diff.clone() });
                }
            }
        }

        VectorDiff::Insert { index, value } => {
            if limit > previous_length || index > index_of_limit {
                if is_full {
                    // Create 1 free space.
                    res.push(VectorDiff::PopFront);
                }

                // There is space for this new item.
                res.push(VectorDiff::Insert {
                    // Subtract 1 because `insert` adds a value compared to `previous_length`.
                    index: (index - index_of_limit).saturating_sub(1),
                    value,
                });
            } else {
                // Insert before `limit`, ignore the diff.
            }
        }

        VectorDiff::Set { index, value } => {
            if index >= index_of_limit {
                res.push(VectorDiff::Set { index: index - index_of_limit, value });
            } else {
                // Update before `limit`, ignore the diff.
            }
        }

        VectorDiff::Remove { index } => {
            if index >= index_of_limit {
                let remove_index = index - index_of_limit;
                res.push(VectorDiff::Remove { index: remove_index });

                if remove_index != index {
                    if let Some(diff) = buffered_vector.get(index_of_limit.saturating_sub(1)) {
                        // There is a previously-truncated item, push front.
                        res.push(VectorDiff::PushFront { value: diff.clone() });
                    }
                }
            } else {
                // Remove before `limit`, ignore the diff.
            }
        }

        VectorDiff::Truncate { length: new_length } => {
            let number_of_removed_values = min(limit, previous_length - new_length);

            res.extend(repeat(VectorDiff::PopBack).take(number_of_removed_values));
            res.extend(
                buffered_vector
                    .iter()
                    .rev()
                    .skip(limit - number_of_removed_values)
                    .take(number_of_removed_values)
                    .cloned()
                    .map(|value| -> (r: VectorDiff<T>) ensures r == (VectorDiff::PushFront { value }) { VectorDiff::PushFront { value } }),
            );
        }

        VectorDiff::Reset { values: new_values } => {
            let new_values = new_values.truncate_from_end(limit);

            // There is space for these new items.
            res.push(VectorDiff::Reset { values: new_values });
        }
    }

    res
}


trait TruncateFromEnd {
    fn truncate_from_end(self, len: usize) -> Self;
}

impl<T> TruncateFromEnd for Vector<T>
where
    T: Clone,
{
    fn truncate_from_end(self, len: usize) -> (r: Self)
        ensures r@ == tail(self@, len)
    {
        if len == 0 {
            return Vector::new();
        }

        let index = self.len().saturating_sub(len);

        // Avoid calling `Vector::split_at`.
        if index == 0 {
            return self;
        }

        let (_left, right) = self.split_at(index);

        right
    }
}



}
} // verus!
fn main() {}
