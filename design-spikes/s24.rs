use std::{mem, vec, hint::unreachable_unchecked};
use vstd::prelude::*;
verus! {

#[verifier::external_body]
#[verifier::accept_recursive_types(T)]
pub struct Vector<T> { inner: std::marker::PhantomData<T> }

impl<T> View for Vector<T> {
    type V = Seq<T>;
    uninterp spec fn view(&self) -> Seq<T>;
}

impl<T: Clone> Vector<T> {
    #[verifier::external_body]
    pub fn len(&self) -> (r: usize) ensures r == self@.len() { unimplemented!() }
    #[verifier::external_body]
    pub fn truncate(&mut self, len: usize)
        requires len <= old(self)@.len()
        ensures final(self)@ == old(self)@.subrange(0, len as int)
    { unimplemented!() }
    #[verifier::external_body]
    pub fn get(&self, i: usize) -> (r: Option<&T>)
        ensures (i < self@.len()) ==> r == Some(&self@[i as int]),
                (i >= self@.len()) ==> r.is_none()
    { unimplemented!() }
}


impl<T: Clone> Clone for Vector<T> {
    #[verifier::external_body]
    fn clone(&self) -> (r: Self) ensures r@ == self@ { unimplemented!() }
}
impl<T: Clone> Vector<T> {
    #[verifier::external_body]
    pub fn is_empty(&self) -> (r: bool) ensures r == (self@.len() == 0) { unimplemented!() }
    #[verifier::external_body]
    pub fn append(&mut self, o: Vector<T>) ensures final(self)@ == old(self)@ + o@ { unimplemented!() }
    #[verifier::external_body]
    pub fn clear(&mut self) ensures final(self)@ == Seq::<T>::empty() { unimplemented!() }
    #[verifier::external_body]
    pub fn push_front(&mut self, v: T) ensures final(self)@ == seq![v] + old(self)@ { unimplemented!() }
    #[verifier::external_body]
    pub fn push_back(&mut self, v: T) ensures final(self)@ == old(self)@.push(v) { unimplemented!() }
    #[verifier::external_body]
    pub fn pop_front(&mut self) -> (r: Option<T>)
        ensures old(self)@.len() == 0 ==> r.is_none() && final(self)@ == old(self)@,
                old(self)@.len() > 0 ==> r == Some(old(self)@[0]) && final(self)@ == old(self)@.subrange(1, old(self)@.len() as int)
    { unimplemented!() }
    #[verifier::external_body]
    pub fn pop_back(&mut self) -> (r: Option<T>)
        ensures old(self)@.len() == 0 ==> r.is_none() && final(self)@ == old(self)@,
                old(self)@.len() > 0 ==> r == Some(old(self)@.last()) && final(self)@ == old(self)@.subrange(0, old(self)@.len() - 1)
    { unimplemented!() }
    #[verifier::external_body]
    pub fn insert(&mut self, i: usize, v: T) requires i <= old(self)@.len() ensures final(self)@ == old(self)@.insert(i as int, v) { unimplemented!() }
    #[verifier::external_body]
    pub fn set(&mut self, i: usize, v: T) -> (r: T) requires i < old(self)@.len() ensures final(self)@ == old(self)@.update(i as int, v), r == old(self)@[i as int] { unimplemented!() }
    #[verifier::external_body]
    pub fn remove(&mut self, i: usize) -> (r: T) requires i < old(self)@.len() ensures final(self)@ == old(self)@.remove(i as int), r == old(self)@[i as int] { unimplemented!() }
}
#[verifier::external_body]
#[verifier::accept_recursive_types(M)]
pub struct Sender<M> { p: std::marker::PhantomData<M> }
impl<M> Sender<M> {
    pub uninterp spec fn log(&self) -> Seq<M>;
    pub uninterp spec fn receivers(&self) -> nat;
    #[verifier::external_body]
    pub fn receiver_count(&self) -> (r: usize) ensures r == self.receivers() { unimplemented!() }
    #[verifier::external_body]
    pub fn send(&mut self, m: M) -> (r: Result<usize, ()>)
        ensures final(self).receivers() == old(self).receivers(),
            old(self).receivers() > 0 ==> final(self).log() == old(self).log().push(m) && r == Ok::<usize, ()>(old(self).receivers() as usize),
            old(self).receivers() == 0 ==> final(self).log() == old(self).log() && r is Err,
    { unimplemented!() }
}

#[verifier::external_body]
#[verifier::accept_recursive_types(T)]
pub struct ArrayVec<T, const N: usize> { inner: std::marker::PhantomData<T> }
impl<T, const N: usize> View for ArrayVec<T, N> {
    type V = Seq<T>;
    uninterp spec fn view(&self) -> Seq<T>;
}
impl<T, const N: usize> ArrayVec<T, N> {
    #[verifier::external_body]
    pub fn new() -> (r: Self) ensures r@ == Seq::<T>::empty() { unimplemented!() }
    #[verifier::external_body]
    pub fn push(&mut self, v: T)
        requires old(self)@.len() < N
        ensures final(self)@ == old(self)@.push(v)
    { unimplemented!() }
}


pub open spec fn applicable<T>(d: VectorDiff<T>, s: Seq<T>) -> bool {
    match d {
        VectorDiff::Insert { index, value } => index <= s.len(),
        VectorDiff::Set { index, value } => index < s.len(),
        VectorDiff::Remove { index } => index < s.len(),
        VectorDiff::PopFront => s.len() > 0,
        VectorDiff::PopBack => s.len() > 0,
        _ => true,
    }
}
// what a source (ObservableVector) can emit on state s
pub open spec fn emittable<T>(d: VectorDiff<T>, s: Seq<T>) -> bool {
    applicable(d, s) && match d {
        VectorDiff::Truncate { length } => length < s.len(),
        _ => true,
    }
}

pub open spec fn apply<T>(d: VectorDiff<T>, s: Seq<T>) -> Seq<T> {
    match d {
        VectorDiff::Append { values } => s + values@,
        VectorDiff::Clear => Seq::empty(),
        VectorDiff::PushFront { value } => seq![value] + s,
        VectorDiff::PushBack { value } => s.push(value),
        VectorDiff::PopFront => if s.len() > 0 { s.subrange(1, s.len() as int) } else { s },
        VectorDiff::PopBack => if s.len() > 0 { s.subrange(0, s.len() - 1) } else { s },
        VectorDiff::Insert { index, value } => s.insert(index as int, value),
        VectorDiff::Set { index, value } => s.update(index as int, value),
        VectorDiff::Remove { index } => s.remove(index as int),
        VectorDiff::Truncate { length } => if length < s.len() { s.subrange(0, length as int) } else { s },
        VectorDiff::Reset { values } => values@,
    }
}

pub open spec fn all_applicable<T>(ds: Seq<VectorDiff<T>>, s: Seq<T>) -> bool
    decreases ds.len()
{
    if ds.len() == 0 { true } else if ds.len() == 1 { applicable(ds[0], s) } else if ds.len() == 2 { applicable(ds[0], s) && applicable(ds[1], apply(ds[0], s)) } else { applicable(ds[0], s) && all_applicable(ds.subrange(1, ds.len() as int), apply(ds[0], s)) }
}
pub open spec fn apply_all<T>(ds: Seq<VectorDiff<T>>, s: Seq<T>) -> Seq<T>
    decreases ds.len()
{
    if ds.len() == 0 { s } else if ds.len() == 1 { apply(ds[0], s) } else if ds.len() == 2 { apply(ds[1], apply(ds[0], s)) } else { apply_all(ds.subrange(1, ds.len() as int), apply(ds[0], s)) }
}

pub open spec fn head<T>(s: Seq<T>, limit: usize) -> Seq<T> {
    if s.len() <= limit { s } else { s.subrange(0, limit as int) }
}

pub open spec fn head_pre<T>(diff: VectorDiff<T>, prev_len: usize, new_buf: Seq<T>, old_buf: Seq<T>) -> bool {
    prev_len == old_buf.len() && emittable(diff, old_buf) && new_buf == apply(diff, old_buf)
}

pub assume_specification<T, E> [std::result::Result::<T, E>::unwrap_or] (r: std::result::Result<T, E>, d: T) -> (o: T) ensures o == (match r { Ok(v) => v, Err(_) => d });
pub assume_specification<T> [std::mem::replace] (dest: &mut T, src: T) -> (r: T) ensures r == *old(dest), *final(dest) == src;
pub mod axioms {
use vstd::prelude::*;
pub broadcast axiom fn axiom_clone_eq<T: Clone>(a: T, b: T)
    requires #[trigger] call_ensures(T::clone, (&a,), b)
    ensures a == b;
}
broadcast use axioms::axiom_clone_eq;

fn min(a: usize, b: usize) -> (r: usize) ensures r == if a <= b { a } else { b } { if a <= b { a } else { b } }

pub struct BroadcastMessage<T> {
    pub diffs: OneOrManyDiffs<T>,
    pub state: Vector<T>,
}

pub enum OneOrManyDiffs<T> {
    One(VectorDiff<T>),
    Many(Vec<VectorDiff<T>>),
}

/// A change to an [`ObservableVector`].
pub enum VectorDiff<T> {
    /// Multiple elements were appended.
    Append {
        /// The appended elements.
        values: Vector<T>,
    },
    /// The vector was cleared.
    Clear,
    /// An element was added at the front.
    PushFront {
        /// The new element.
        value: T,
    },
    /// An element was added at the back.
    PushBack {
        /// The new element.
        value: T,
    },
    /// The element at the front was removed.
    PopFront,
    /// The element at the back was removed.
    PopBack,
    /// An element was inserted at the given position.
    Insert {
        /// The index of the new element.
        ///
        /// The element that was previously at that index as well as all the
        /// ones after it were shifted to the right.
        index: usize,
        /// The new element.
        value: T,
    },
    /// A replacement of the previous value at the given position.
    Set {
        /// The index of the element that was replaced.
        index: usize,
        /// The new element.
        value: T,
    },
    /// Removal of an element.
    Remove {
        /// The index that the removed element had.
        index: usize,
    },
    /// Truncation of the vector.
    Truncate {
        /// The number of elements that remain.
        length: usize,
    },
    /// The subscriber lagged too far behind, and the next update that should
    /// have been received has already been discarded from the internal buffer.
    Reset {
        /// The full list of elements.
        values: Vector<T>,
    },
}

impl<T> OneOrManyDiffs<T> {
    fn into_vec(self) -> Vec<VectorDiff<T>> {
        match self {
            OneOrManyDiffs::One(diff) => vec![diff],
            OneOrManyDiffs::Many(diffs) => diffs,
        }
    }
}

pub struct Context<'a> { pub w: &'a u8 }
pub enum Poll<T> { Ready(T), Pending }
pub enum RecvError { Closed, Lagged(u64) }
pub enum TryRecvError { Empty, Closed, Lagged(u64) }
#[verifier::external_body]
#[verifier::accept_recursive_types(M)]
pub struct Receiver<M> { p: std::marker::PhantomData<M> }
impl<M> Receiver<M> {
    pub uninterp spec fn queue(&self) -> Seq<M>;   // retained, undelivered messages (oldest first)
    pub uninterp spec fn lagged(&self) -> bool;     // some undelivered messages were overwritten
    pub uninterp spec fn closed(&self) -> bool;
    #[verifier::external_body]
    pub fn try_recv(&mut self) -> (r: Result<M, TryRecvError>)
        ensures
            final(self).closed() == old(self).closed(),
            old(self).lagged() ==> r is Err && r->Err_0 is Lagged && !final(self).lagged() && final(self).queue() == old(self).queue(),
            !old(self).lagged() && old(self).queue().len() > 0 ==> r == Ok::<M, TryRecvError>(old(self).queue()[0]) && final(self).queue() == old(self).queue().subrange(1, old(self).queue().len() as int) && !final(self).lagged(),
            !old(self).lagged() && old(self).queue().len() == 0 ==> r is Err && (old(self).closed() ==> r->Err_0 is Closed) && (!old(self).closed() ==> r->Err_0 is Empty) && final(self).queue() == old(self).queue() && !final(self).lagged(),
    { unimplemented!() }
}
#[verifier::external_body]
#[verifier::accept_recursive_types(T)]
pub struct ReusableBoxRecvFuture<T> { p: std::marker::PhantomData<T> }
pub open spec fn msg_diffs<T>(m: BroadcastMessage<T>) -> Seq<VectorDiff<T>> {
    match m.diffs { OneOrManyDiffs::One(d) => seq![d], OneOrManyDiffs::Many(ds) => ds@ }
}
pub open spec fn msg_wf<T>(m: BroadcastMessage<T>) -> bool { msg_diffs(m).len() > 0 }
pub open spec fn rx_wf<T>(rx: Receiver<BroadcastMessage<T>>) -> bool {
    (forall|i: int| 0 <= i < rx.queue().len() ==> msg_wf(#[trigger] rx.queue()[i]))
    && (rx.lagged() ==> rx.queue().len() > 0)
}
// relation between a receiver before a completed recv(), the result, and the receiver afterwards
pub open spec fn recv_rel<T>(rx: Receiver<BroadcastMessage<T>>, r: Result<BroadcastMessage<T>, RecvError>, rx2: Receiver<BroadcastMessage<T>>) -> bool {
    &&& rx2.closed() == rx.closed()
    &&& !rx2.lagged()
    &&& (rx.lagged() ==> r is Err && r->Err_0 is Lagged && rx2.queue() == rx.queue())
    &&& (!rx.lagged() && rx.queue().len() > 0 ==> r == Ok::<BroadcastMessage<T>, RecvError>(rx.queue()[0]) && rx2.queue() == rx.queue().subrange(1, rx.queue().len() as int))
    &&& (!rx.lagged() && rx.queue().len() == 0 ==> rx.closed() && r is Err && r->Err_0 is Closed && rx2.queue() == rx.queue())
}
impl<T> ReusableBoxRecvFuture<T> {
    pub uninterp spec fn rx(&self) -> Option<Receiver<BroadcastMessage<T>>>;
    #[verifier::external_body]
    pub fn set(&mut self, rx: Receiver<BroadcastMessage<T>>) ensures final(self).rx() == Some(rx) { unimplemented!() }
    #[verifier::external_body]
    pub fn poll(&mut self, cx: &mut Context<'_>) -> (res: Poll<(Result<BroadcastMessage<T>, RecvError>, Receiver<BroadcastMessage<T>>)>)
        requires old(self).rx() is Some,
        ensures
            res is Pending ==> final(self).rx() == old(self).rx() && old(self).rx()->Some_0.queue().len() == 0 && !old(self).rx()->Some_0.lagged() && !old(self).rx()->Some_0.closed(),
            res is Ready ==> final(self).rx() is None && recv_rel(old(self).rx()->Some_0, res->Ready_0.0, res->Ready_0.1),
    { unimplemented!() }
}
macro_rules! ready {
    ($e:expr $(,)?) => {
        match $e {
            Poll::Ready(t) => t,
            Poll::Pending => {
                return Poll::Pending;
            }
        }
    };
}
/// A stream of `VectorDiff`s created from a [`VectorSubscriber`].
///
/// Use its [`Stream`] implementation to interact with it (futures-util and
/// other futures-related crates have extension traits with convenience
/// methods).
pub struct VectorSubscriberStream<T> {
    pub inner: ReusableBoxRecvFuture<T>,
    pub state: VectorSubscriberStreamState<T>,
}

impl<T> VectorSubscriberStream<T> {
    fn new(inner: ReusableBoxRecvFuture<T>) -> Self {
        Self { inner, state: VectorSubscriberStreamState::Recv }
    }
}

pub enum VectorSubscriberStreamState<T> {
    // Stream is waiting on a new message from the inner broadcast receiver.
    Recv,
    // Stream is yielding remaining items from a previous message with multiple
    // diffs.
    YieldBatch { iter: vec::IntoIter<VectorDiff<T>>, rx: Receiver<BroadcastMessage<T>> },
}

// Not clear why this explicit impl is needed, but it's not unsafe so it is fine


use vstd::std_specs::iter::IteratorSpec;
pub open spec fn flat<T>(q: Seq<BroadcastMessage<T>>) -> Seq<VectorDiff<T>>
    decreases q.len()
{
    if q.len() == 0 { Seq::empty() } else { msg_diffs(q[0]) + flat(q.subrange(1, q.len() as int)) }
}
impl<T> VectorSubscriberStream<T> {
    #[verifier::prophetic]
    pub open spec fn wf(&self) -> bool {
        match self.state {
            VectorSubscriberStreamState::Recv => self.inner.rx() is Some && rx_wf(self.inner.rx()->Some_0),
            VectorSubscriberStreamState::YieldBatch { iter, rx } => iter.remaining().len() > 0 && rx_wf(rx) && !rx.lagged(),
        }
    }
    pub open spec fn receiver(&self) -> Receiver<BroadcastMessage<T>> {
        match self.state {
            VectorSubscriberStreamState::Recv => self.inner.rx()->Some_0,
            VectorSubscriberStreamState::YieldBatch { iter, rx } => rx,
        }
    }
    #[verifier::prophetic]
    pub open spec fn pending(&self) -> Seq<VectorDiff<T>> {
        match self.state {
            VectorSubscriberStreamState::Recv => Seq::empty(),
            VectorSubscriberStreamState::YieldBatch { iter, rx } => iter.remaining(),
        }
    }
    // everything this stream will still deliver without a further send, in order (no-lag case)
    #[verifier::prophetic]
    pub open spec fn backlog(&self) -> Seq<VectorDiff<T>> { self.pending() + flat(self.receiver().queue()) }
}

impl<T: Clone + 'static> VectorSubscriberStream<T> {

    #[verifier::exec_allows_no_decreases_clause]
    fn poll_next(&mut self, cx: &mut Context<'_>) -> (res: Poll<Option<VectorDiff<T>>>)
        requires old(self).wf(),
        ensures
            final(self).wf(),
            // FIFO, no lag: the item is the head of the backlog and the rest stays queued, in order
            !old(self).receiver().lagged() && old(self).backlog().len() > 0 ==>
                res is Ready && res->Ready_0 == Some(old(self).backlog()[0]) && final(self).backlog() =~= old(self).backlog().subrange(1, old(self).backlog().len() as int),
            // nothing to deliver, vector alive: Pending and nothing changes
            !old(self).receiver().lagged() && old(self).backlog().len() == 0 && !old(self).receiver().closed() ==>
                res is Pending && final(self).backlog() =~= old(self).backlog(),
            // end of stream only when the channel is closed and drained
            (res is Ready && res->Ready_0 is None) ==> old(self).receiver().closed() && (!old(self).receiver().lagged() ==> old(self).backlog().len() == 0),
            !old(self).receiver().lagged() && old(self).backlog().len() == 0 && old(self).receiver().closed() ==> res is Ready && res->Ready_0 is None,
    {
        match &mut self.state {
            VectorSubscriberStreamState::Recv => {
                let (result, mut rx) = ready!(self.inner.poll(cx));

                let poll = match result {
                    Ok(msg) => match msg.diffs {
                        OneOrManyDiffs::One(diff) => Poll::Ready(Some(diff)),
                        OneOrManyDiffs::Many(diffs) if diffs.is_empty() => {
                            unreachable!("ObservableVectorTransaction never sends empty diffs")
                        }
                        OneOrManyDiffs::Many(mut diffs) if diffs.len() == 1 => {
                            Poll::Ready(Some(diffs.pop().unwrap()))
                        }
                        OneOrManyDiffs::Many(diffs) => {
                            let mut iter = diffs.into_iter();
                            let fst = iter.next().unwrap();
                            self.state = VectorSubscriberStreamState::YieldBatch { iter, rx };
                            return Poll::Ready(Some(fst));
                        }
                    },
                    Err(RecvError::Closed) => Poll::Ready(None),
                    Err(RecvError::Lagged(_)) => {
                        Poll::Ready(handle_lag(&mut rx).map(|values| VectorDiff::Reset { values }))
                    }
                };

                self.inner.set(rx);
                poll
            }
            VectorSubscriberStreamState::YieldBatch { iter, .. } => {
                let diff =
                    iter.next().expect("YieldBatch is never left empty when exiting poll_next");

                if iter.len() == 0 {
                    let old_state =
                        mem::replace(&mut self.state, VectorSubscriberStreamState::Recv);
                    let rx = match old_state {
                        VectorSubscriberStreamState::YieldBatch { rx, .. } => rx,
                        // Safety: We would not be in the outer branch otherwise
                        _ => unsafe { unreachable_unchecked() },
                    };

                    self.inner.set(rx);
                }

                Poll::Ready(Some(diff))
            }
        }
    }
}

/// A batched stream of `VectorDiff`s created from a [`VectorSubscriber`].
///
/// Use its [`Stream`] implementation to interact with it (futures-util and
/// other futures-related crates have extension traits with convenience
/// methods).
pub struct VectorSubscriberBatchedStream<T> {
    inner: ReusableBoxRecvFuture<T>,
}

impl<T> VectorSubscriberBatchedStream<T> {
    fn new(inner: ReusableBoxRecvFuture<T>) -> Self {
        Self { inner }
    }
}

impl<T: Clone + 'static> VectorSubscriberBatchedStream<T> {

    #[verifier::exec_allows_no_decreases_clause]
    fn poll_next(&mut self, cx: &mut Context<'_>) -> Poll<Option<Vec<VectorDiff<T>>>> {
        fn append<T>(target: &mut Vec<VectorDiff<T>>, source: OneOrManyDiffs<T>) {
            match source {
                OneOrManyDiffs::One(diff) => target.push(diff),
                OneOrManyDiffs::Many(mut diffs) => target.append(&mut diffs),
            }
        }

        let (result, mut rx) = ready!(self.inner.poll(cx));

        let poll = match result {
            Ok(msg) => {
                let mut batch = msg.diffs.into_vec();
                let __brk;
                loop {
                    match rx.try_recv() {
                        Ok(msg) => append(&mut batch, msg.diffs),
                        Err(TryRecvError::Empty | TryRecvError::Closed) => {
                            __brk = Poll::Ready(Some(batch)); break;
                        }
                        Err(TryRecvError::Lagged(_)) => {
                            __brk = Poll::Ready(
                                handle_lag(&mut rx)
                                    .map(|values| vec![VectorDiff::Reset { values }]),
                            ); break;
                        }
                    }
                }
                __brk
            }
            Err(RecvError::Closed) => Poll::Ready(None),
            Err(RecvError::Lagged(_)) => {
                Poll::Ready(handle_lag(&mut rx).map(|values| vec![VectorDiff::Reset { values }]))
            }
        };

        self.inner.set(rx);
        poll
    }
}

fn handle_lag<T: Clone + 'static>(rx: &mut Receiver<BroadcastMessage<T>>) -> (res: Option<Vector<T>>)
    requires !old(rx).lagged(), old(rx).queue().len() > 0,
    ensures
        final(rx).closed() == old(rx).closed(), !final(rx).lagged(), final(rx).queue().len() == 0,
        !old(rx).closed() ==> res == Some(old(rx).queue().last().state),
        old(rx).closed() ==> res == Some(old(rx).queue().last().state),      // C08
{
    let mut msg = None;
    loop
        invariant
            rx.closed() == old(rx).closed(), !rx.lagged(), old(rx).queue().len() > 0,
            rx.queue().len() <= old(rx).queue().len(),
            rx.queue() =~= old(rx).queue().subrange(old(rx).queue().len() - rx.queue().len(), old(rx).queue().len() as int),
            msg == (if rx.queue().len() < old(rx).queue().len() { Some(old(rx).queue()[old(rx).queue().len() - rx.queue().len() - 1]) } else { None::<BroadcastMessage<T>> }),
        decreases rx.queue().len(),
    {
        match rx.try_recv() {
            // There's a newer message in the receiver's buffer, use that for reset.
            Ok(m) => {
                msg = Some(m);
            }
            // Ideally we'd return a `VecDiff::Reset` with the last state before the
            // channel was closed here, but we have no way of obtaining the last state.
            Err(TryRecvError::Closed) => {
                return None;
            }
            // Lagged twice in a row, is this possible? If it is, it's fine to just
            // loop again and look at the next try_recv result.
            Err(TryRecvError::Lagged(_)) => {}
            Err(TryRecvError::Empty) => match msg {
                // We exhausted the internal buffer using try_recv, msg contains the
                // last message from it, which we use for the reset.
                Some(msg) => return Some(msg.state),
                // We exhausted the internal buffer using try_recv but there was no
                // message in it, even though we got TryRecvError::Lagged(_) before.
                None => unreachable!("got no new message via try_recv after lag"),
            },
        }
    }
}


} // verus!
fn main() {}
