use vstd::prelude::*;
use std::hash::{Hash, Hasher};
use std::mem;
verus! {
pub assume_specification<T> [std::mem::replace] (dest: &mut T, src: T) -> (r: T) ensures r == *old(dest), *final(dest) == src;
pub assume_specification<T: Default> [std::mem::take] (dest: &mut T) -> (r: T) ensures r == *old(dest);

#[verifier::external_body]
pub struct Waker { id: u64 }
impl Waker {
    #[verifier::external_body]
    pub fn wake(self) { unimplemented!() }
}
impl Clone for Waker {
    #[verifier::external_body]
    fn clone(&self) -> (r: Self) ensures r == *self { unimplemented!() }
}
#[verifier::external_body]
pub struct Context<'a> { w: &'a Waker }
impl<'a> Context<'a> {
    pub uninterp spec fn spec_waker(&self) -> Waker;
    #[verifier::external_body]
    pub fn waker(&self) -> (r: &Waker) ensures *r == self.spec_waker() { unimplemented!() }
}
#[verifier::external_body]
#[verifier::accept_recursive_types(T)]
pub struct Vec<T> { p: std::marker::PhantomData<T> }
impl<T> View for Vec<T> { type V = Seq<T>; uninterp spec fn view(&self) -> Seq<T>; }
#[verifier::external_body]
#[verifier::accept_recursive_types(T)]
pub struct Drain<T> { p: std::marker::PhantomData<T> }
impl<T> View for Drain<T> { type V = Seq<T>; uninterp spec fn view(&self) -> Seq<T>; }
impl<T> Vec<T> {
    #[verifier::external_body]
    pub fn new() -> (r: Self) ensures r@.len() == 0 { unimplemented!() }
    #[verifier::external_body]
    pub fn push(&mut self, v: T) ensures final(self)@ == old(self)@.push(v) { unimplemented!() }
    #[verifier::external_body]
    pub fn drain(&mut self, r: std::ops::RangeFull) -> (d: Drain<T>) ensures d@ == old(self)@, final(self)@.len() == 0 { unimplemented!() }
}
impl<T> Default for Vec<T> {
    #[verifier::external_body]
    fn default() -> (r: Self) ensures r@.len() == 0 { unimplemented!() }
}
pub enum Poll<T> { Ready(T), Pending }

pub struct RwLock<M> { pub inner: M }
impl<M> RwLock<M> {
    pub fn write(&mut self) -> (r: Result<&mut M, ()>)
        ensures r is Ok, *r->Ok_0 == old(self).inner, *final(r->Ok_0) == final(self).inner
    { Ok(&mut self.inner) }
}

impl<M> RwLock<M> {
    pub fn read(&self) -> (r: Result<&M, ()>) ensures r is Ok, *r->Ok_0 == self.inner { Ok(&self.inner) }
    pub fn get_mut(&mut self) -> (r: Result<&mut M, ()>)
        ensures r is Ok, *r->Ok_0 == old(self).inner, *final(r->Ok_0) == final(self).inner
    { Ok(&mut self.inner) }
}
impl<M: Default> Default for RwLock<M> {
    fn default() -> (r: Self) ensures call_ensures(M::default, (), r.inner) { Self { inner: M::default() } }
}
impl Default for ObservableStateMetadata {
    fn default() -> (r: Self) ensures r.version == 1, r.wakers@.len() == 0 { Self { version: 1, wakers: Vec::new() } }
}
pub struct ObservableState<T> {
    /// The wrapped value.
    pub value: T,

    /// The attached observable metadata.
    pub metadata: RwLock<ObservableStateMetadata>,
}

pub struct ObservableStateMetadata {
    /// The version of the value.
    ///
    /// Starts at 1 and is incremented by 1 each time the value is updated.
    /// When the observable is dropped, this is set to 0 to indicate no further
    /// updates will happen.
    pub version: u64,

    /// List of wakers.
    ///
    /// This is part of `ObservableState` and uses extra locking so that it is
    /// guaranteed that it's only updated by subscribers while the value is
    /// locked for reading. This way, it is guaranteed that between a subscriber
    /// reading the value and adding a waker because the value hasn't changed
    /// yet, no updates to the value could have happened.
    pub wakers: Vec<Waker>,
}


impl<T> ObservableState<T> {
    pub fn new(value: T) -> Self {
        Self { value, metadata: Default::default() }
    }

    /// Get a reference to the inner value.
    pub fn get(&self) -> &T {
        &self.value
    }

    /// Get the current version of the inner value.
    pub fn version(&self) -> u64 {
        self.metadata.read().unwrap().version
    }

    pub fn poll_update(
        &mut self,
        observed_version: &mut u64,
        cx: &Context<'_>,
    ) -> (res: Poll<Option<()>>)
        ensures
            final(self).value == old(self).value,
            final(self).metadata.inner.version == old(self).metadata.inner.version,
            old(self).metadata.inner.version == 0 ==> res == Poll::Ready(None::<()>) && *final(observed_version) == *old(observed_version) && final(self).metadata.inner.wakers@ == old(self).metadata.inner.wakers@,
            old(self).metadata.inner.version != 0 && *old(observed_version) < old(self).metadata.inner.version ==> res == Poll::Ready(Some(())) && *final(observed_version) == old(self).metadata.inner.version && final(self).metadata.inner.wakers@ == old(self).metadata.inner.wakers@,
            old(self).metadata.inner.version != 0 && *old(observed_version) >= old(self).metadata.inner.version ==> res == Poll::<Option<()>>::Pending && *final(observed_version) == *old(observed_version) && final(self).metadata.inner.wakers@ == old(self).metadata.inner.wakers@.push(cx.spec_waker()),
    {
        let mut metadata = self.metadata.write().unwrap();

        if metadata.version == 0 {
            Poll::Ready(None)
        } else if *observed_version < metadata.version {
            *observed_version = metadata.version;
            Poll::Ready(Some(()))
        } else {
            metadata.wakers.push(cx.waker().clone());
            Poll::Pending
        }
    }

    pub fn set(&mut self, value: T) -> (res: T)
        requires old(self).metadata.inner.version < u64::MAX,
        ensures res == old(self).value, final(self).value == value,
            final(self).metadata.inner.version == old(self).metadata.inner.version + 1,
            final(self).metadata.inner.wakers@.len() == 0,
    {
        let result = mem::replace(&mut self.value, value);
        self.incr_version_and_wake();
        result
    }

    pub fn set_if_not_eq(&mut self, value: T) -> Option<T>
    where
        T: PartialEq,
    {
        if self.value != value {
            Some(self.set(value))
        } else {
            None
        }
    }

    pub fn set_if_hash_not_eq(&mut self, value: T) -> Option<T>
    where
        T: Hash,
    {
        if hash(&self.value) != hash(&value) {
            Some(self.set(value))
        } else {
            None
        }
    }

    pub fn update(&mut self, f: impl FnOnce(&mut T)) {
        f(&mut self.value);
        self.incr_version_and_wake();
    }

    pub fn update_if(&mut self, f: impl FnOnce(&mut T) -> bool) {
        if f(&mut self.value) {
            self.incr_version_and_wake();
        }
    }

    /// "Close" the state – indicate that no further updates will happen.
    pub fn close(&mut self) {
        let mut metadata = self.metadata.write().unwrap();
        metadata.version = 0;
        // Clear the backing buffer for the wakers, no new ones will be added.
        wake(mem::take(&mut metadata.wakers));
    }

    fn incr_version_and_wake(&mut self)
        requires old(self).metadata.inner.version < u64::MAX,
        ensures final(self).value == old(self).value,
            final(self).metadata.inner.version == old(self).metadata.inner.version + 1,
            final(self).metadata.inner.wakers@.len() == 0,
    {
        let metadata = self.metadata.get_mut().unwrap();
        metadata.version += 1;
        wake(metadata.wakers.drain(..));
    }
}

pub uninterp spec fn spec_hash<T>(v: T) -> u64;
#[verifier::external_body]
fn hash<T: Hash>(value: &T) -> (r: u64) ensures r == spec_hash(*value) {
    use std::collections::hash_map::DefaultHasher;

    let mut hasher = DefaultHasher::new();
    value.hash(&mut hasher);
    hasher.finish()
}

#[verifier::external_body]
fn wake<I>(wakers: I)
where
    I: IntoIterator<Item = Waker>,
    I::IntoIter: ExactSizeIterator,
{
    let iter = wakers.into_iter();
    for waker in iter {
        waker.wake();
    }
}

} // verus!
impl<T> Iterator for Drain<T> { type Item = T; fn next(&mut self) -> Option<T> { unimplemented!() } }
impl<T> ExactSizeIterator for Drain<T> {}
pub struct VecIntoIter<T> { p: std::marker::PhantomData<T> }
impl<T> Iterator for VecIntoIter<T> { type Item = T; fn next(&mut self) -> Option<T> { unimplemented!() } }
impl<T> ExactSizeIterator for VecIntoIter<T> {}
impl<T> IntoIterator for Vec<T> { type Item = T; type IntoIter = VecIntoIter<T>; fn into_iter(self) -> VecIntoIter<T> { unimplemented!() } }
fn main() {}
