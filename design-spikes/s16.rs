use vstd::prelude::*;
use std::mem;
use std::cmp::Ordering;
verus! {
pub assume_specification<T> [std::mem::replace] (dest: &mut T, src: T) -> (r: T) ensures r == *old(dest), *final(dest) == src;

pub struct HeadProj<'a> {
    pub buffered_len: &'a mut usize,
    pub limit: &'a mut usize,
}
impl HeadProj<'_> {
    fn update_limit(&mut self, new_limit: usize) -> (res: Option<usize>)
        ensures *final(self).limit == new_limit, *final(self).buffered_len == *old(self).buffered_len,
            res == (if *old(self).limit < new_limit { Some(*old(self).limit) } else { None::<usize> }),
    {
        // Let's update the limit.
        let old_limit = mem::replace(self.limit, new_limit);
        match old_limit.cmp(&new_limit) {
            Ordering::Less => Some(old_limit),
            Ordering::Greater => None,
            Ordering::Equal => None,
        }
    }
}
} // verus!
fn main() {}
