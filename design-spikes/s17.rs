use vstd::prelude::*;
verus! {
#[verifier::external_body]
pub fn diverge() -> ! { loop {} }

pub struct OV { pub values: Vec<u8>, pub log: Vec<u8> }
impl OV {
    pub fn insert(&mut self, index: usize, value: u8)
        ensures index <= old(self).values@.len(),
            final(self).values@ == old(self).values@.insert(index as int, value),
    {
        let len = self.values.len();
        if index <= len {
            self.values.insert(index, value);
        } else {
            { proof { assert(self.values@ == old(self).values@ && self.log@ == old(self).log@); } diverge() }
        }
    }
    pub fn insert_bad(&mut self, index: usize, value: u8)
        ensures index <= old(self).values@.len(),
    {
        let len = self.values.len();
        self.log.push(1);
        if index <= len {
            self.values.insert(index, value);
        } else {
            { proof { assert(self.values@ == old(self).values@ && self.log@ == old(self).log@); } diverge() }
        }
    }
}
} // verus!
fn main() {}
