//! Vec-backed stand-in for imbl::Vector (sequence semantics only).
use std::ops::{Index, IndexMut};
pub mod vector { pub use super::Vector; }

#[derive(Clone, Debug, PartialEq, Eq)]
pub struct Vector<T> { v: Vec<T> }

impl<T: Clone> Vector<T> {
    pub fn new() -> Self { Self { v: Vec::new() } }
    pub fn len(&self) -> usize { self.v.len() }
    pub fn is_empty(&self) -> bool { self.v.is_empty() }
    pub fn push_back(&mut self, x: T) { self.v.push(x) }
    pub fn push_front(&mut self, x: T) { self.v.insert(0, x) }
    pub fn pop_back(&mut self) -> Option<T> { self.v.pop() }
    pub fn pop_front(&mut self) -> Option<T> { if self.v.is_empty() { None } else { Some(self.v.remove(0)) } }
    pub fn insert(&mut self, i: usize, x: T) { self.v.insert(i, x) }
    pub fn set(&mut self, i: usize, x: T) -> T { std::mem::replace(&mut self.v[i], x) }
    pub fn remove(&mut self, i: usize) -> T { self.v.remove(i) }
    pub fn truncate(&mut self, n: usize) { self.v.truncate(n) }
    pub fn clear(&mut self) { self.v.clear() }
    pub fn append(&mut self, mut o: Self) { self.v.append(&mut o.v) }
    pub fn get(&self, i: usize) -> Option<&T> { self.v.get(i) }
    pub fn last(&self) -> Option<&T> { self.v.last() }
    pub fn iter(&self) -> std::slice::Iter<'_, T> { self.v.iter() }
    pub fn iter_mut(&mut self) -> std::slice::IterMut<'_, T> { self.v.iter_mut() }
    pub fn split_at(mut self, i: usize) -> (Self, Self) { let r = self.v.split_off(i); (self, Self { v: r }) }
    pub fn skip(&self, n: usize) -> Self { Self { v: self.v[n..].to_vec() } }
    pub fn retain<F: FnMut(&T) -> bool>(&mut self, f: F) { self.v.retain(f) }
    pub fn sort_by<F: Fn(&T, &T) -> std::cmp::Ordering>(&mut self, f: F) { self.v.sort_by(f) }
    pub fn binary_search_by<F: FnMut(&T) -> std::cmp::Ordering>(&self, f: F) -> Result<usize, usize> { self.v.binary_search_by(f) }
}
impl<T> Default for Vector<T> { fn default() -> Self { Self { v: Vec::new() } } }
impl<T> Index<usize> for Vector<T> { type Output = T; fn index(&self, i: usize) -> &T { &self.v[i] } }
impl<T> IndexMut<usize> for Vector<T> { fn index_mut(&mut self, i: usize) -> &mut T { &mut self.v[i] } }
impl<T> FromIterator<T> for Vector<T> { fn from_iter<I: IntoIterator<Item = T>>(i: I) -> Self { Self { v: i.into_iter().collect() } } }
impl<T> IntoIterator for Vector<T> { type Item = T; type IntoIter = std::vec::IntoIter<T>; fn into_iter(self) -> Self::IntoIter { self.v.into_iter() } }
impl<T> Extend<T> for Vector<T> { fn extend<I: IntoIterator<Item = T>>(&mut self, i: I) { self.v.extend(i) } }
#[macro_export]
macro_rules! vector { ($($x:expr),* $(,)?) => { $crate::Vector::from_iter([$($x),*]) }; }
