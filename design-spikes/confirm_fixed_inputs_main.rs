use eyeball::Observable;
use eyeball_im::ObservableVector;
use eyeball_im_util::vector::VectorObserverExt;
use futures_core::Stream;
use futures_util::task::noop_waker;
use imbl::vector;
use std::{pin::Pin, task::{Context, Poll}};

fn drain<S: Stream + Unpin>(s: &mut S) -> (Vec<S::Item>, bool) {
    let w = noop_waker();
    let mut cx = Context::from_waker(&w);
    let mut out = vec![];
    loop {
        match Pin::new(&mut *s).poll_next(&mut cx) {
            Poll::Ready(Some(x)) => out.push(x),
            Poll::Ready(None) => return (out, true),
            Poll::Pending => return (out, false),
        }
    }
}
fn main() {
    {
        let mut ob = ObservableVector::<u8>::with_capacity(1);
        let (init, mut st) = ob.subscribe().into_values_and_stream();
        ob.push_back(1); ob.push_back(2); ob.push_back(3);
        let fin = ob.clone();
        drop(ob);
        let (items, closed) = drain(&mut st);
        let mut rep = init.clone();
        for d in items.clone() { d.apply(&mut rep); }
        println!("F1: items={items:?} closed={closed} replica={rep:?} final={fin:?} ok={}", rep == fin);
    }
    {
        let mut ob = ObservableVector::<u8>::with_capacity(1);
        let (init, mut st) = ob.subscribe().filter(|x| *x % 2 == 0);
        ob.push_back(2);
        let (i1, _) = drain(&mut st);
        ob.clear(); ob.push_back(1); ob.push_back(3);
        let (i2, _) = drain(&mut st);
        let mut rep = init.clone();
        for d in i1.into_iter().chain(i2.clone()) { d.apply(&mut rep); }
        println!("F2: second batch={i2:?} replica={rep:?} ok={}", rep.is_empty());
    }
    {
        let mut ob = ObservableVector::<u8>::new();
        ob.append(vector![1, 2, 3, 4]);
        let mut limit = Observable::new(0usize);
        let head = ob.subscribe().dynamic_head(Observable::subscribe(&limit));
        let (init, mut st) = head.filter(|_| true);
        Observable::set(&mut limit, 2);
        let (items, _) = drain(&mut st);
        let mut rep = init.clone();
        for d in items.clone() { d.apply(&mut rep); }
        println!("F3: init={init:?} items={items:?} replica={rep:?} ok={}", rep == vector![1, 2]);
    }
    {
        let mut ob = ObservableVector::<u8>::new();
        ob.append(vector![10, 11]);
        let (init, mut st) = ob.subscribe().tail(5);
        ob.insert(1, 99);
        let (items, _) = drain(&mut st);
        let mut rep = init.clone();
        for d in items.clone() { d.apply(&mut rep); }
        println!("F5: items={items:?} replica={rep:?} source={:?} ok={}", *ob, rep == *ob);
    }
}
