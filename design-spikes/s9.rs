use vstd::prelude::*;
verus! {

#[verifier::external_body]
#[verifier::accept_recursive_types(T)]
pub struct Vector<T> { inner: std::marker::PhantomData<T> }

impl<T> View for Vector<T> {
    type V = Seq<T>;
    uninterp spec fn view(&self) -> Seq<T>;
}

impl<T: Clone> Vector<T> {
    #[verifier::external_body]
    pub fn len(&self) -> (r: usize) ensures r == self@.len() { unimplemented!() }
    #[verifier::external_body]
    pub fn truncate(&mut self, len: usize)
        requires len <= old(self)@.len()
        ensures final(self)@ == old(self)@.subrange(0, len as int)
    { unimplemented!() }
    #[verifier::external_body]
    pub fn get(&self, i: usize) -> (r: Option<&T>)
        ensures (i < self@.len()) ==> r == Some(&self@[i as int]),
                (i >= self@.len()) ==> r.is_none()
    { unimplemented!() }
}


impl<T: Clone> Clone for Vector<T> {
    #[verifier::external_body]
    fn clone(&self) -> (r: Self) ensures r@ == self@ { unimplemented!() }
}
impl<T: Clone> Vector<T> {
    #[verifier::external_body]
    pub fn is_empty(&self) -> (r: bool) ensures r == (self@.len() == 0) { unimplemented!() }
    #[verifier::external_body]
    pub fn append(&mut self, o: Vector<T>) ensures final(self)@ == old(self)@ + o@ { unimplemented!() }
    #[verifier::external_body]
    pub fn clear(&mut self) ensures final(self)@ == Seq::<T>::empty() { unimplemented!() }
    #[verifier::external_body]
    pub fn push_front(&mut self, v: T) ensures final(self)@ == seq![v] + old(self)@ { unimplemented!() }
    #[verifier::external_body]
    pub fn push_back(&mut self, v: T) ensures final(self)@ == old(self)@.push(v) { unimplemented!() }
    #[verifier::external_body]
    pub fn pop_front(&mut self) -> (r: Option<T>)
        ensures old(self)@.len() == 0 ==> r.is_none() && final(self)@ == old(self)@,
                old(self)@.len() > 0 ==> r == Some(old(self)@[0]) && final(self)@ == old(self)@.subrange(1, old(self)@.len() as int)
    { unimplemented!() }
    #[verifier::external_body]
    pub fn pop_back(&mut self) -> (r: Option<T>)
        ensures old(self)@.len() == 0 ==> r.is_none() && final(self)@ == old(self)@,
                old(self)@.len() > 0 ==> r == Some(old(self)@.last()) && final(self)@ == old(self)@.subrange(0, old(self)@.len() - 1)
    { unimplemented!() }
    #[verifier::external_body]
    pub fn insert(&mut self, i: usize, v: T) requires i <= old(self)@.len() ensures final(self)@ == old(self)@.insert(i as int, v) { unimplemented!() }
    #[verifier::external_body]
    pub fn set(&mut self, i: usize, v: T) -> (r: T) requires i < old(self)@.len() ensures final(self)@ == old(self)@.update(i as int, v), r == old(self)@[i as int] { unimplemented!() }
    #[verifier::external_body]
    pub fn remove(&mut self, i: usize) -> (r: T) requires i < old(self)@.len() ensures final(self)@ == old(self)@.remove(i as int), r == old(self)@[i as int] { unimplemented!() }
}
#[verifier::external_body]
#[verifier::accept_recursive_types(M)]
pub struct Sender<M> { p: std::marker::PhantomData<M> }
impl<M> Sender<M> {
    pub uninterp spec fn log(&self) -> Seq<M>;
    pub uninterp spec fn receivers(&self) -> nat;
    #[verifier::external_body]
    pub fn receiver_count(&self) -> (r: usize) ensures r == self.receivers() { unimplemented!() }
    #[verifier::external_body]
    pub fn send(&mut self, m: M) -> (r: Result<usize, ()>)
        ensures final(self).receivers() == old(self).receivers(),
            old(self).receivers() > 0 ==> final(self).log() == old(self).log().push(m) && r == Ok::<usize, ()>(old(self).receivers() as usize),
            old(self).receivers() == 0 ==> final(self).log() == old(self).log() && r is Err,
    { unimplemented!() }
}

#[verifier::external_body]
#[verifier::accept_recursive_types(T)]
pub struct ArrayVec<T, const N: usize> { inner: std::marker::PhantomData<T> }
impl<T, const N: usize> View for ArrayVec<T, N> {
    type V = Seq<T>;
    uninterp spec fn view(&self) -> Seq<T>;
}
impl<T, const N: usize> ArrayVec<T, N> {
    #[verifier::external_body]
    pub fn new() -> (r: Self) ensures r@ == Seq::<T>::empty() { unimplemented!() }
    #[verifier::external_body]
    pub fn push(&mut self, v: T)
        requires old(self)@.len() < N
        ensures final(self)@ == old(self)@.push(v)
    { unimplemented!() }
}


pub open spec fn applicable<T>(d: VectorDiff<T>, s: Seq<T>) -> bool {
    match d {
        VectorDiff::Insert { index, value } => index <= s.len(),
        VectorDiff::Set { index, value } => index < s.len(),
        VectorDiff::Remove { index } => index < s.len(),
        VectorDiff::PopFront => s.len() > 0,
        VectorDiff::PopBack => s.len() > 0,
        _ => true,
    }
}
// what a source (ObservableVector) can emit on state s
pub open spec fn emittable<T>(d: VectorDiff<T>, s: Seq<T>) -> bool {
    applicable(d, s) && match d {
        VectorDiff::Truncate { length } => length < s.len(),
        _ => true,
    }
}

pub open spec fn apply<T>(d: VectorDiff<T>, s: Seq<T>) -> Seq<T> {
    match d {
        VectorDiff::Append { values } => s + values@,
        VectorDiff::Clear => Seq::empty(),
        VectorDiff::PushFront { value } => seq![value] + s,
        VectorDiff::PushBack { value } => s.push(value),
        VectorDiff::PopFront => if s.len() > 0 { s.subrange(1, s.len() as int) } else { s },
        VectorDiff::PopBack => if s.len() > 0 { s.subrange(0, s.len() - 1) } else { s },
        VectorDiff::Insert { index, value } => s.insert(index as int, value),
        VectorDiff::Set { index, value } => s.update(index as int, value),
        VectorDiff::Remove { index } => s.remove(index as int),
        VectorDiff::Truncate { length } => if length < s.len() { s.subrange(0, length as int) } else { s },
        VectorDiff::Reset { values } => values@,
    }
}

pub open spec fn all_applicable<T>(ds: Seq<VectorDiff<T>>, s: Seq<T>) -> bool
    decreases ds.len()
{
    if ds.len() == 0 { true } else if ds.len() == 1 { applicable(ds[0], s) } else if ds.len() == 2 { applicable(ds[0], s) && applicable(ds[1], apply(ds[0], s)) } else { applicable(ds[0], s) && all_applicable(ds.subrange(1, ds.len() as int), apply(ds[0], s)) }
}
pub open spec fn apply_all<T>(ds: Seq<VectorDiff<T>>, s: Seq<T>) -> Seq<T>
    decreases ds.len()
{
    if ds.len() == 0 { s } else if ds.len() == 1 { apply(ds[0], s) } else if ds.len() == 2 { apply(ds[1], apply(ds[0], s)) } else { apply_all(ds.subrange(1, ds.len() as int), apply(ds[0], s)) }
}

pub open spec fn head<T>(s: Seq<T>, limit: usize) -> Seq<T> {
    if s.len() <= limit { s } else { s.subrange(0, limit as int) }
}

pub open spec fn head_pre<T>(diff: VectorDiff<T>, prev_len: usize, new_buf: Seq<T>, old_buf: Seq<T>) -> bool {
    prev_len == old_buf.len() && emittable(diff, old_buf) && new_buf == apply(diff, old_buf)
}

pub assume_specification<T, E> [std::result::Result::<T, E>::unwrap_or] (r: std::result::Result<T, E>, d: T) -> (o: T) ensures o == (match r { Ok(v) => v, Err(_) => d });
pub mod axioms {
use vstd::prelude::*;
pub broadcast axiom fn axiom_clone_eq<T: Clone>(a: T, b: T)
    requires #[trigger] call_ensures(T::clone, (&a,), b)
    ensures a == b;
}
broadcast use axioms::axiom_clone_eq;

fn min(a: usize, b: usize) -> (r: usize) ensures r == if a <= b { a } else { b } { if a <= b { a } else { b } }

/// An ordered list of elements that broadcasts any changes made to it.
pub struct ObservableVector<T> {
    values: Vector<T>,
    sender: Sender<BroadcastMessage<T>>,
}
impl<T: Clone + 'static> ObservableVector<T> {





    /// Append the given elements at the end of the `Vector` and notify
    /// subscribers.
    pub fn append(&mut self, values: Vector<T>) {

        self.values.append(values.clone());
        self.broadcast_diff(VectorDiff::Append { values });
    }

    /// Clear out all of the elements in this `Vector` and notify subscribers.
    pub fn clear(&mut self) {
        let already_empty = self.values.is_empty();


        if !already_empty {
            self.values.clear();
            self.broadcast_diff(VectorDiff::Clear);
        }
    }

    /// Add an element at the front of the list and notify subscribers.
    pub fn push_front(&mut self, value: T) {

        self.values.push_front(value.clone());
        self.broadcast_diff(VectorDiff::PushFront { value });
    }

    /// Add an element at the back of the list and notify subscribers.
    pub fn push_back(&mut self, value: T) {

        self.values.push_back(value.clone());
        self.broadcast_diff(VectorDiff::PushBack { value });
    }

    /// Remove the first element, notify subscribers and return the element.
    ///
    /// If there are no elements, subscribers will not be notified and this
    /// method will return `None`.
    pub fn pop_front(&mut self) -> Option<T> {
        let value = self.values.pop_front();
        if value.is_some() {

            self.broadcast_diff(VectorDiff::PopFront);
        }
        value
    }

    /// Remove the last element, notify subscribers and return the element.
    ///
    /// If there are no elements, subscribers will not be notified and this
    /// method will return `None`.
    pub fn pop_back(&mut self) -> Option<T> {
        let value = self.values.pop_back();
        if value.is_some() {

            self.broadcast_diff(VectorDiff::PopBack);
        }
        value
    }

    /// Insert an element at the given position and notify subscribers.
    ///
    /// # Panics
    ///
    /// Panics if `index > len`.
        pub fn insert(&mut self, index: usize, value: T) {
        let len = self.values.len();
        if index <= len {

            self.values.insert(index, value.clone());
            self.broadcast_diff(VectorDiff::Insert { index, value });
        } else {
            panic!("index out of bounds: the length is {len} but the index is {index}");
        }
    }

    /// Replace the element at the given position, notify subscribers and return
    /// the previous element at that position.
    ///
    /// # Panics
    ///
    /// Panics if `index > len`.
        pub fn set(&mut self, index: usize, value: T) -> T {
        let len = self.values.len();
        if index < len {

            let old_value = self.values.set(index, value.clone());
            self.broadcast_diff(VectorDiff::Set { index, value });
            old_value
        } else {
            panic!("index out of bounds: the length is {len} but the index is {index}");
        }
    }

    /// Remove the element at the given position, notify subscribers and return
    /// the element.
    ///
    /// # Panics
    ///
    /// Panics if `index >= len`.
        pub fn remove(&mut self, index: usize) -> T {
        let len = self.values.len();
        if index < len {

            let value = self.values.remove(index);
            self.broadcast_diff(VectorDiff::Remove { index });
            value
        } else {
            panic!("index out of bounds: the length is {len} but the index is {index}");
        }
    }

    /// Truncate the vector to `len` elements and notify subscribers.
    ///
    /// Does nothing if `len` is greater or equal to the vector's current
    /// length.
    pub fn truncate(&mut self, len: usize) {
        if len < self.len() {

            self.values.truncate(len);
            self.broadcast_diff(VectorDiff::Truncate { length: len });
        }
    }





    fn broadcast_diff(&mut self, diff: VectorDiff<T>) {
        if self.sender.receiver_count() != 0 {
            let msg =
                BroadcastMessage { diffs: OneOrManyDiffs::One(diff), state: self.values.clone() };
            let _num_receivers = self.sender.send(msg).unwrap_or(0);
        }
    }
}

struct BroadcastMessage<T> {
    diffs: OneOrManyDiffs<T>,
    state: Vector<T>,
}

enum OneOrManyDiffs<T> {
    One(VectorDiff<T>),
    Many(Vec<VectorDiff<T>>),
}

/// A change to an [`ObservableVector`].
pub enum VectorDiff<T> {
    /// Multiple elements were appended.
    Append {
        /// The appended elements.
        values: Vector<T>,
    },
    /// The vector was cleared.
    Clear,
    /// An element was added at the front.
    PushFront {
        /// The new element.
        value: T,
    },
    /// An element was added at the back.
    PushBack {
        /// The new element.
        value: T,
    },
    /// The element at the front was removed.
    PopFront,
    /// The element at the back was removed.
    PopBack,
    /// An element was inserted at the given position.
    Insert {
        /// The index of the new element.
        ///
        /// The element that was previously at that index as well as all the
        /// ones after it were shifted to the right.
        index: usize,
        /// The new element.
        value: T,
    },
    /// A replacement of the previous value at the given position.
    Set {
        /// The index of the element that was replaced.
        index: usize,
        /// The new element.
        value: T,
    },
    /// Removal of an element.
    Remove {
        /// The index that the removed element had.
        index: usize,
    },
    /// Truncation of the vector.
    Truncate {
        /// The number of elements that remain.
        length: usize,
    },
    /// The subscriber lagged too far behind, and the next update that should
    /// have been received has already been discarded from the internal buffer.
    Reset {
        /// The full list of elements.
        values: Vector<T>,
    },
}


impl<T> std::ops::Deref for ObservableVector<T> {
    type Target = Vector<T>;

    fn deref(&self) -> &Self::Target {
        &self.values
    }
}
} // verus!
fn main() {}
