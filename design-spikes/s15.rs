use vstd::prelude::*;
verus! {
pub mod base {
use vstd::prelude::*;
pub enum VectorDiff<T> { PopFront, PushBack { value: T } }

#[verifier::external_body]
#[verifier::accept_recursive_types(T)]
pub struct ArrayVec<T, const N: usize> { inner: std::marker::PhantomData<T> }
impl<T, const N: usize> View for ArrayVec<T, N> { type V = Seq<T>; uninterp spec fn view(&self) -> Seq<T>; }
impl<T, const N: usize> ArrayVec<T, N> {
    #[verifier::external_body]
    pub fn pop(&mut self) -> (r: Option<T>)
        ensures old(self)@.len() == 0 ==> r.is_none() && final(self)@ == old(self)@,
                old(self)@.len() > 0 ==> r == Some(old(self)@.last()) && final(self)@ == old(self)@.drop_last(),
    { unimplemented!() }
    pub broadcast axiom fn axiom_cap(&self) ensures #[trigger] self@.len() <= N;
}
}
pub mod code {
use vstd::prelude::*;
use super::base::*;
broadcast use ArrayVec::axiom_cap;

pub open spec fn buf_seq<T>(b: Option<VectorDiff<T>>) -> Seq<VectorDiff<T>> { match b { Some(d) => seq![d], None => Seq::empty() } }
pub open spec fn opt_seq<T>(b: Option<VectorDiff<T>>) -> Seq<VectorDiff<T>> { match b { Some(d) => seq![d], None => Seq::empty() } }

// verbatim from ops.rs (impl VectorDiffContainerOps<T> for VectorDiff<T>), R-TRAIT: free fn with `self` -> `this`
    fn push_into_head_buf<T, F: FnMut(VectorDiff<T>) -> ArrayVec<VectorDiff<T>, 2>>(
        this: VectorDiff<T>,
        buffer: &mut Option<VectorDiff<T>>,
        mut map_diffs: F,
    ) -> (res: Option<VectorDiff<T>>)
        requires old(buffer).is_none(), call_requires(map_diffs, (this,)),
        ensures exists|out: ArrayVec<VectorDiff<T>, 2>| call_ensures(map_diffs, (this,), out) && opt_seq(res) + buf_seq(*final(buffer)) =~= out@,
            res.is_none() ==> final(buffer).is_none(),
    {
        assert!(buffer.is_none(), "buffer must be None when calling push_into_head_buf");

        let mut diffs = map_diffs(this);

        let last = diffs.pop();
        if let Some(first) = diffs.pop() {
            *buffer = last;
            Some(first)
        } else {
            last
        }
    }
}
} // verus!
fn main() {}
