use vstd::prelude::*;
verus! {

#[verifier::external_body]
#[verifier::accept_recursive_types(T)]
pub struct Vector<T> { inner: std::marker::PhantomData<T> }

impl<T> View for Vector<T> {
    type V = Seq<T>;
    uninterp spec fn view(&self) -> Seq<T>;
}

impl<T: Clone> Vector<T> {
    #[verifier::external_body]
    pub fn len(&self) -> (r: usize) ensures r == self@.len() { unimplemented!() }
    #[verifier::external_body]
    pub fn truncate(&mut self, len: usize)
        requires len <= old(self)@.len()
        ensures final(self)@ == old(self)@.subrange(0, len as int)
    { unimplemented!() }
    #[verifier::external_body]
    pub fn get(&self, i: usize) -> (r: Option<&T>)
        ensures (i < self@.len()) ==> r == Some(&self@[i as int]),
                (i >= self@.len()) ==> r.is_none()
    { unimplemented!() }
}

#[verifier::external_body]
#[verifier::accept_recursive_types(T)]
pub struct ArrayVec<T, const N: usize> { inner: std::marker::PhantomData<T> }
impl<T, const N: usize> View for ArrayVec<T, N> {
    type V = Seq<T>;
    uninterp spec fn view(&self) -> Seq<T>;
}
impl<T, const N: usize> ArrayVec<T, N> {
    #[verifier::external_body]
    pub fn new() -> (r: Self) ensures r@ == Seq::<T>::empty() { unimplemented!() }
    #[verifier::external_body]
    pub fn push(&mut self, v: T)
        requires old(self)@.len() < N
        ensures final(self)@ == old(self)@.push(v)
    { unimplemented!() }
}

pub enum VectorDiff<T> {
    Append { values: Vector<T> },
    Clear,
    PushFront { value: T },
    PushBack { value: T },
    PopFront,
    PopBack,
    Insert { index: usize, value: T },
    Set { index: usize, value: T },
    Remove { index: usize },
    Truncate { length: usize },
    Reset { values: Vector<T> },
}

pub open spec fn applicable<T>(d: VectorDiff<T>, s: Seq<T>) -> bool {
    match d {
        VectorDiff::Insert { index, value } => index <= s.len(),
        VectorDiff::Set { index, value } => index < s.len(),
        VectorDiff::Remove { index } => index < s.len(),
        VectorDiff::PopFront => s.len() > 0,
        VectorDiff::PopBack => s.len() > 0,
        _ => true,
    }
}
// what a source (ObservableVector) can emit on state s
pub open spec fn emittable<T>(d: VectorDiff<T>, s: Seq<T>) -> bool {
    applicable(d, s) && match d {
        VectorDiff::Truncate { length } => length < s.len(),
        _ => true,
    }
}

pub open spec fn apply<T>(d: VectorDiff<T>, s: Seq<T>) -> Seq<T> {
    match d {
        VectorDiff::Append { values } => s + values@,
        VectorDiff::Clear => Seq::empty(),
        VectorDiff::PushFront { value } => seq![value] + s,
        VectorDiff::PushBack { value } => s.push(value),
        VectorDiff::PopFront => if s.len() > 0 { s.subrange(1, s.len() as int) } else { s },
        VectorDiff::PopBack => if s.len() > 0 { s.subrange(0, s.len() - 1) } else { s },
        VectorDiff::Insert { index, value } => s.insert(index as int, value),
        VectorDiff::Set { index, value } => s.update(index as int, value),
        VectorDiff::Remove { index } => s.remove(index as int),
        VectorDiff::Truncate { length } => if length < s.len() { s.subrange(0, length as int) } else { s },
        VectorDiff::Reset { values } => values@,
    }
}

pub open spec fn all_applicable<T>(ds: Seq<VectorDiff<T>>, s: Seq<T>) -> bool
    decreases ds.len()
{
    if ds.len() == 0 { true } else if ds.len() == 1 { applicable(ds[0], s) } else if ds.len() == 2 { applicable(ds[0], s) && applicable(ds[1], apply(ds[0], s)) } else { applicable(ds[0], s) && all_applicable(ds.subrange(1, ds.len() as int), apply(ds[0], s)) }
}
pub open spec fn apply_all<T>(ds: Seq<VectorDiff<T>>, s: Seq<T>) -> Seq<T>
    decreases ds.len()
{
    if ds.len() == 0 { s } else if ds.len() == 1 { apply(ds[0], s) } else if ds.len() == 2 { apply(ds[1], apply(ds[0], s)) } else { apply_all(ds.subrange(1, ds.len() as int), apply(ds[0], s)) }
}

pub open spec fn head<T>(s: Seq<T>, limit: usize) -> Seq<T> {
    if s.len() <= limit { s } else { s.subrange(0, limit as int) }
}

pub open spec fn head_pre<T>(diff: VectorDiff<T>, prev_len: usize, new_buf: Seq<T>, old_buf: Seq<T>) -> bool {
    prev_len == old_buf.len() && emittable(diff, old_buf) && new_buf == apply(diff, old_buf)
}

pub mod axioms {
use vstd::prelude::*;
pub broadcast axiom fn axiom_clone_eq<T: Clone>(a: T, b: T)
    requires #[trigger] call_ensures(T::clone, (&a,), b)
    ensures a == b;
}
broadcast use axioms::axiom_clone_eq;

fn min(a: usize, b: usize) -> (r: usize) ensures r == if a <= b { a } else { b } { if a <= b { a } else { b } }

fn handle_diff<T: Clone>(
    diff: VectorDiff<T>,
    limit: usize,
    prev_len: usize,
    buffered_vector: &Vector<T>,
) -> (res: ArrayVec<VectorDiff<T>, 2>)
    ensures
        diff is Append ==> (forall|old_buf: Seq<T>| #[trigger] head_pre(diff, prev_len, buffered_vector@, old_buf) ==>
            all_applicable(res@, head(old_buf, limit)) && apply_all(res@, head(old_buf, limit)) =~= head(buffered_vector@, limit)),
        diff is Clear ==> (forall|old_buf: Seq<T>| #[trigger] head_pre(diff, prev_len, buffered_vector@, old_buf) ==>
            all_applicable(res@, head(old_buf, limit)) && apply_all(res@, head(old_buf, limit)) =~= head(buffered_vector@, limit)),
        diff is PushFront ==> (forall|old_buf: Seq<T>| #[trigger] head_pre(diff, prev_len, buffered_vector@, old_buf) ==>
            all_applicable(res@, head(old_buf, limit)) && apply_all(res@, head(old_buf, limit)) =~= head(buffered_vector@, limit)),
        diff is PushBack ==> (forall|old_buf: Seq<T>| #[trigger] head_pre(diff, prev_len, buffered_vector@, old_buf) ==>
            all_applicable(res@, head(old_buf, limit)) && apply_all(res@, head(old_buf, limit)) =~= head(buffered_vector@, limit)),
        diff is PopFront ==> (forall|old_buf: Seq<T>| #[trigger] head_pre(diff, prev_len, buffered_vector@, old_buf) ==>
            all_applicable(res@, head(old_buf, limit)) && apply_all(res@, head(old_buf, limit)) =~= head(buffered_vector@, limit)),
        diff is PopBack ==> (forall|old_buf: Seq<T>| #[trigger] head_pre(diff, prev_len, buffered_vector@, old_buf) ==>
            all_applicable(res@, head(old_buf, limit)) && apply_all(res@, head(old_buf, limit)) =~= head(buffered_vector@, limit)),
        diff is Insert ==> (forall|old_buf: Seq<T>| #[trigger] head_pre(diff, prev_len, buffered_vector@, old_buf) ==>
            all_applicable(res@, head(old_buf, limit)) && apply_all(res@, head(old_buf, limit)) =~= head(buffered_vector@, limit)),
        diff is Set ==> (forall|old_buf: Seq<T>| #[trigger] head_pre(diff, prev_len, buffered_vector@, old_buf) ==>
            all_applicable(res@, head(old_buf, limit)) && apply_all(res@, head(old_buf, limit)) =~= head(buffered_vector@, limit)),
        diff is Remove ==> (forall|old_buf: Seq<T>| #[trigger] head_pre(diff, prev_len, buffered_vector@, old_buf) ==>
            all_applicable(res@, head(old_buf, limit)) && apply_all(res@, head(old_buf, limit)) =~= head(buffered_vector@, limit)),
        diff is Truncate ==> (forall|old_buf: Seq<T>| #[trigger] head_pre(diff, prev_len, buffered_vector@, old_buf) ==>
            all_applicable(res@, head(old_buf, limit)) && apply_all(res@, head(old_buf, limit)) =~= head(buffered_vector@, limit)),
        diff is Reset ==> (forall|old_buf: Seq<T>| #[trigger] head_pre(diff, prev_len, buffered_vector@, old_buf) ==>
            all_applicable(res@, head(old_buf, limit)) && apply_all(res@, head(old_buf, limit)) =~= head(buffered_vector@, limit)),
{
    // If the limit is zero, we have nothing to do.
    if limit == 0 {
        return ArrayVec::new();
    }

    let is_full = prev_len >= limit;
    let mut res = ArrayVec::new();

    match diff {
        VectorDiff::Append { mut values } => {
            if is_full {
                // Ignore the diff.
            } else {
                // Truncate the `values` to fit inside the free space.
                values.truncate(min(limit - prev_len, values.len()));
                res.push(VectorDiff::Append { values });
            }
        }
        VectorDiff::Clear => {
            res.push(VectorDiff::Clear);
        }
        VectorDiff::PushFront { value } => {
            if is_full {
                // Create 1 free space.
                res.push(VectorDiff::PopBack);
            }

            // There is space for this new item.
            res.push(VectorDiff::PushFront { value });
        }
        VectorDiff::PushBack { value } => {
            if is_full {
                // Ignore the diff.
            } else {
                // There is space for this new item.
                res.push(VectorDiff::PushBack { value });
            }
        }
        VectorDiff::PopFront => {
            res.push(VectorDiff::PopFront);

            if let Some(diff) = buffered_vector.get(limit - 1) {
                // There is a previously-truncated item, push back.
                res.push(VectorDiff::PushBack { value: diff.clone() });
            }
        }
        VectorDiff::PopBack => {
            if prev_len > limit {
                // Pop back outside the limit, ignore the diff.
            } else {
                res.push(VectorDiff::PopBack);
            }
        }
        VectorDiff::Insert { index, value } => {
            if index >= limit {
                // Insert after `limit`, ignore the diff.
            } else {
                if is_full {
                    // Create 1 free space.
                    res.push(VectorDiff::PopBack);
                }

                // There is space for this new item.
                res.push(VectorDiff::Insert { index, value });
            }
        }
        VectorDiff::Set { index, value } => {
            if index >= limit {
                // Update after `limit`, ignore the diff.
            } else {
                res.push(VectorDiff::Set { index, value });
            }
        }
        VectorDiff::Remove { index } => {
            if index >= limit {
                // Remove after `limit`, ignore the diff.
            } else {
                res.push(VectorDiff::Remove { index });

                if let Some(diff) = buffered_vector.get(limit - 1) {
                    // There is a previously-truncated item, push back.
                    res.push(VectorDiff::PushBack { value: diff.clone() });
                }
            }
        }
        VectorDiff::Truncate { length: new_length } => {
            if new_length >= limit {
                // Truncate items after `limit`, ignore the diff.
            } else {
                res.push(VectorDiff::Truncate { length: new_length });
            }
        }
        VectorDiff::Reset { values: mut new_values } => {
            if new_values.len() > limit {
                // There are too many values, truncate.
                new_values.truncate(limit);
            }

            // There is space for these new items.
            res.push(VectorDiff::Reset { values: new_values });
        }
    }

    res
}
} // verus!
fn main() {}
