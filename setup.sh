#!/bin/sh
# Run once after a fresh restore, offline: builds the extractor and the bounded crate from files on disk.
set -e
cd "$(dirname "$0")"
export CARGO_NET_OFFLINE=true
(cd extract && cargo build --release --offline)
mkdir -p .cache work evidence replays
(cd bounded && CARGO_TARGET_DIR=/verif/.cache/target cargo build --release --offline)
verus --version >/dev/null
echo setup ok
