import sys, json
sys.path.insert(0,'/verif/vf')
import gen, verus
unit=sys.argv[1]
g,t=gen.generate('/verif/units/%s.vrs'%unit)
import os
os.makedirs('/tmp/vt', exist_ok=True)
p='/tmp/vt/%s.rs'%unit
open(p,'w').write(t)
print('undecided',g.undecided)
r=verus.run_verus(p)
per,stray,fe,vr=verus.analyse(r,g.obligations)
print(vr, 'wall',round(r['wall_s'],1))
for k,v in per.items():
    if v['verdict']!='discharged':
        print(k,v['verdict'],v['ms'])
        L=t.split('\n')
        for m in v['messages'][:4]:
            print('    ',m['message'],m['lines'])
            for ln,lab in m['lines']:
                if lab and 'failed' in lab: print('        >>',L[ln-1].strip()[:300])
print('stray',stray[:5]); print('frontend',fe[:5])
print(sum(1 for v in per.values() if v['verdict']=='discharged'),'/',len(per))
if fe or vr is None: print(r['raw_err_tail'][-1500:])
if '--times' in sys.argv:
    for k,v in sorted(per.items(), key=lambda kv: -(kv[1]['ms'] or 0))[:12]: print('   ', k, v['ms'], v.get('rlimit'))
    try:
        for m in r['json']['times-ms']['smt']['smt-run-module-times']:
            for f in sorted(m.get('function-breakdown', []), key=lambda f: -f.get('time',0))[:8]: print('      ', f['function'].split('::')[-1], f.get('time'), f.get('rlimit'), f.get('success'))
    except Exception as e: print(e)
