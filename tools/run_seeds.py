#!/usr/bin/env python3
"""Apply each confirmed seeded change to /repo, run the property's check (and optionally others), undo. Writes seeded/RESULTS.json"""
import subprocess, json, os, sys, glob, re
sys.path.insert(0, "/verif/vf")
import config
import shutil, tempfile
# the evidence files are rewritten by every check run: keep the ones of the unchanged tree
_ev_backup = tempfile.mkdtemp(prefix="evidence-backup.")
shutil.copytree("/verif/evidence", os.path.join(_ev_backup, "evidence"))
import atexit
def _restore():
    shutil.rmtree("/verif/evidence", ignore_errors=True)
    shutil.copytree(os.path.join(_ev_backup, "evidence"), "/verif/evidence")
    shutil.rmtree(_ev_backup, ignore_errors=True)
atexit.register(_restore)
tier = os.environ.get("TIER", "quick")
only = sys.argv[1:]
res = {}
rp = "/verif/seeded/RESULTS.json"
if os.path.exists(rp):
    res = json.load(open(rp))
for d in sorted(glob.glob("/verif/seeded/C*-*")):
    name = os.path.basename(d)
    if only and not any(name.startswith(o) for o in only):
        continue
    meta = json.load(open(os.path.join(d, "meta.json")))
    prop = meta["property"]
    if prop not in config.PROPS:
        print(name, "property not claimed yet"); continue
    assert subprocess.run("git -C /repo status --porcelain --untracked-files=no", shell=True, capture_output=True, text=True).stdout.strip() == "", "repo dirty"
    r = subprocess.run("git -C /repo apply %s/patch.diff" % d, shell=True, capture_output=True, text=True)
    if r.returncode != 0:
        print(name, "patch does not apply:", r.stderr[:200]); continue
    try:
        out = subprocess.run("./check %s --tier %s" % (prop, tier), shell=True, cwd="/verif", capture_output=True, text=True, timeout=3600)
        viol = [l for l in out.stdout.split("\n") if l.startswith("VIOLATION") or l.startswith("UNDECIDED") or l.startswith("INTERNAL")]
        res[name] = {"property": prop, "tier": tier, "exit": out.returncode, "lines": viol[:6]}
        print(name, prop, "exit", out.returncode, viol[:3])
        for v in viol:
            m = re.search(r"replay=(\S+)", v)
            if m and os.path.exists(m.group(1)):
                rj = json.load(open(m.group(1)))
                res[name].setdefault("replays", []).append({"obligation": rj.get("obligation"), "classification": rj.get("classification"), "input": rj.get("input")})
    finally:
        subprocess.run("git -C /repo checkout -- .", shell=True)
        subprocess.run("rm -f /verif/replays/*", shell=True)
    json.dump(res, open(rp, "w"), indent=1)
# restore evidence of the unchanged tree for the properties touched
