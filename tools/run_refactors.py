#!/usr/bin/env python3
"""False-alarm test: apply behaviour-preserving refactorings of /repo (patches written by people who never saw /verif),
run the checks of the properties whose anchors they touch, undo.  A VIOLATION here is a false alarm of the machinery;
UNDECIDED (exit 2: lost anchor, construct outside the declared rewrites, proof not re-found) is the allowed answer.
usage: run_refactors.py <dir-with-rN/patch.diff | stored> <name-prefix> <prop,prop,...> [only...]   -> refactors/RESULTS.json"""
import subprocess, json, os, sys, glob, shutil, tempfile, atexit
src, prefix, props = sys.argv[1], sys.argv[2], sys.argv[3].split(",")
only = sys.argv[4:]
tier = os.environ.get("TIER", "quick")
_ev = tempfile.mkdtemp(prefix="evidence-backup.")
shutil.copytree("/verif/evidence", os.path.join(_ev, "evidence"))
def _restore():
    shutil.rmtree("/verif/evidence", ignore_errors=True)
    shutil.copytree(os.path.join(_ev, "evidence"), "/verif/evidence")
    shutil.rmtree(_ev, ignore_errors=True)
atexit.register(_restore)
os.makedirs("/verif/refactors", exist_ok=True)
rp = "/verif/refactors/RESULTS.json"
res = json.load(open(rp)) if os.path.exists(rp) else {}
# `stored` as <dir>: take the patches already copied to /verif/refactors/<prefix>-rN
dirs = sorted(glob.glob("/verif/refactors/%s-r*" % prefix)) if src == "stored" else sorted(glob.glob(os.path.join(src, "r*")))
for d in dirs:
    nm = os.path.basename(d) if src == "stored" else prefix + "-" + os.path.basename(d)
    if only and nm not in only:
        continue
    patch = os.path.join(d, "patch.diff")
    if not os.path.exists(patch):
        continue
    dst = os.path.join("/verif/refactors", nm)
    os.makedirs(dst, exist_ok=True)
    if src != "stored":
        shutil.copy(patch, dst)
        if os.path.exists(os.path.join(d, "notes.md")):
            shutil.copy(os.path.join(d, "notes.md"), dst)
    assert subprocess.run("git -C /repo status --porcelain --untracked-files=no", shell=True, capture_output=True, text=True).stdout.strip() == "", "repo dirty"
    r = subprocess.run("git -C /repo apply %s" % patch, shell=True, capture_output=True, text=True)
    if r.returncode != 0:
        print(nm, "patch does not apply:", r.stderr[:200]); continue
    files = subprocess.run("git -C /repo diff --name-only", shell=True, capture_output=True, text=True).stdout.split()
    prev = res.get(nm, {}).get("checks", {})
    res[nm] = {"files": files, "tier": tier, "checks": dict(prev)}
    try:
        for p in props:
            out = subprocess.run("./check %s --tier %s" % (p, tier), shell=True, cwd="/verif", capture_output=True, text=True, timeout=3600)
            lines = [l for l in out.stdout.split("\n") if l.startswith(("VIOLATION", "UNDECIDED", "INTERNAL"))]
            res[nm]["checks"][p] = {"exit": out.returncode, "lines": [l[:300] for l in lines[:6]]}
            print(nm, p, "exit", out.returncode, [l[:160] for l in lines[:3]], flush=True)
    finally:
        subprocess.run("git -C /repo checkout -- .", shell=True)
        subprocess.run("rm -f /verif/replays/*", shell=True)
    json.dump(res, open(rp, "w"), indent=1)
