#!/bin/sh
# usage: try_patch.sh <patch.diff> <unit>...   — applies the patch to a scratch copy of /repo and runs the units' proofs there
set -e
P=$1; shift
S=/tmp/mut/repo.$$
mkdir -p /tmp/mut; rm -rf $S; mkdir $S
(cd /repo && git archive HEAD) | tar -x -C $S
(cd $S && git init -q . && git apply $P) || { echo "patch does not apply"; rm -rf $S; exit 3; }
for u in "$@"; do VERIF_REPO=$S python3 /verif/tools/try_unit.py $u 2>&1 | grep -v notrun | cut -c1-400; done
rm -rf $S
