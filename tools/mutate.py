#!/usr/bin/env python3
"""Contract-strength measurement: small syntactic mutants of the functions under contract, each run through the Verus
unit(s) on a scratch copy of /repo (never on /repo itself).  A mutant that still compiles (`cargo check`) and leaves every
obligation discharged *survived* the contracts: either it is equivalent, or the contract is too weak there (the bounded
run is then the only line of defence).  Results: /verif/mutation/<file>.json

A survivor is then given to the bounded families named with --bounded (built against the scratch copy): killed there = the
contract is weaker than the bounded check at that point; surviving both = most likely an equivalent mutant.

usage: mutate.py <file relative to the repo> <crate> <unit[,unit…]> [substring of fn keys …] [--bounded fam,fam --focus Cxx]"""
import sys, os, re, json, shutil, subprocess, tempfile, time
sys.path.insert(0, "/verif/vf")
args = sys.argv[1:]
bounded_fams, focus = [], None
if "--bounded" in args:
    i = args.index("--bounded"); bounded_fams = args[i + 1].split(","); del args[i:i + 2]
if "--focus" in args:
    i = args.index("--focus"); focus = args[i + 1]; del args[i:i + 2]
relfile, crate, units = args[0], args[1], args[2].split(",")
only = args[3:]
SCR = os.path.join(os.environ.get("TMPDIR", "/var/tmp"), "eyeball-mut.%d" % os.getpid())
shutil.rmtree(SCR, ignore_errors=True)
os.makedirs(SCR)
subprocess.run("git -C /repo archive HEAD | tar -x -C %s" % SCR, shell=True, check=True)
shutil.copy("/repo/Cargo.lock", SCR)
os.environ["VERIF_REPO"] = SCR
import gen, verus
# the units, preludes and specs are read from a snapshot taken now, so that /verif can be edited while a campaign runs
SNAP = os.path.join(SCR, "verif-snapshot")
for d in ("units", "prelude", "specs"):
    shutil.copytree(os.path.join("/verif", d), os.path.join(SNAP, d))
gen.VERIF = SNAP
UNITS = os.path.join(SNAP, "units")

ext = json.loads(subprocess.run([gen.EXTRACT_BIN, os.path.join(SCR, relfile)], capture_output=True, text=True).stdout)[0]
orig = open(os.path.join(SCR, relfile), "rb").read()
# only functions the unit(s) actually have under contract (verified bodies; R-EXT and view-only functions are not)
under = set()
for u in units:
    g0, _t0 = gen.generate(os.path.join(UNITS, "%s.vrs" % u))
    ext_sites = set(x["what"] for x in g0.trusted if x.get("kind") == "R-EXT")
    for site in g0.functions:
        if site.startswith(relfile + "::") and site not in ext_sites:
            under.add(site[len(relfile) + 2:].split("#closure")[0])
fns = [it for it in ext["items"] if it["kind"] == "fn" and it["body"] and (not only or any(o in it["key"] for o in only))
       and it["key"] in under
       and not any(a["name"] in ("test", "cfg") for a in it.get("attrs", [])) and "test" not in it["key"].split("::")[-1]]
print("under contract in %s: %d functions" % (",".join(units), len(under)), flush=True)
def in_comment(pos):
    ls = orig.rfind(b"\n", 0, pos) + 1
    return b"//" in orig[ls:pos]

OPS = [
    (rb"\+= 1\b", b"-= 1"), (rb"-= 1\b", b"+= 1"), (rb"\+= 1\b", b"+= 2"),
    (rb" < ", b" <= "), (rb" <= ", b" < "), (rb" > ", b" >= "), (rb" >= ", b" > "), (rb" == ", b" != "), (rb" != ", b" == "),
    (rb" \+ 1\b", b""), (rb" - 1\b", b""), (rb" \+ 1\b", b" + 2"), (rb" - 1\b", b" - 2"),
    (rb"\bpush_front\b", b"push_back"), (rb"\bpush_back\b", b"push_front"), (rb"\bpop_front\b", b"pop_back"), (rb"\bpop_back\b", b"pop_front"),
    (rb"VectorDiff::PopFront\b", b"VectorDiff::PopBack"), (rb"VectorDiff::PopBack\b", b"VectorDiff::PopFront"),
    (rb"VectorDiff::PushFront\b", b"VectorDiff::PushBack"), (rb"VectorDiff::PushBack\b", b"VectorDiff::PushFront"),
    (rb"\btrue\b", b"false"), (rb"\bfalse\b", b"true"), (rb"\b0\b", b"1"), (rb"\b1\b", b"0"),
    (rb"\.is_some\(\)", b".is_none()"), (rb"\.is_none\(\)", b".is_some()"), (rb"&&", b"||"), (rb"\|\|", b"&&"),
    (rb"\bmin\(", b"max("), (rb"saturating_sub", b"wrapping_sub"),
]

mutants = []
for it in fns:
    bs, be = it["body"]
    body = orig[bs:be]
    for pat, rep in OPS:
        for m in re.finditer(pat, body):
            a, b = bs + m.start(), bs + m.end()
            if in_comment(a) or b"tracing::" in orig[orig.rfind(b"\n", 0, a) + 1:orig.find(b"\n", a)]:
                continue
            line = orig.count(b"\n", 0, a) + 1
            mutants.append({"fn": it["key"], "line": line, "from": orig[a:b].decode(), "to": rep.decode(), "span": [a, b]})
    # statement deletion: single-line statements ending in `;` (not `let`, not `return`)
    off = bs
    for ln in body.split(b"\n"):
        st = ln.strip()
        if st.endswith(b";") and not st.startswith((b"let ", b"return", b"//", b"#", b"tracing::")) and b"{" not in st and b"}" not in st:
            a = off + (len(ln) - len(ln.lstrip()))
            mutants.append({"fn": it["key"], "line": orig.count(b"\n", 0, a) + 1, "from": st.decode()[:60], "to": "<deleted>", "span": [a, off + len(ln)], "delete": True})
        off += len(ln) + 1

print("%d functions, %d mutants" % (len(fns), len(mutants)), flush=True)
env = dict(os.environ, CARGO_NET_OFFLINE="true", CARGO_TARGET_DIR=os.path.join(SCR, "target"))
subprocess.run("cargo check -q -p %s --offline" % crate, shell=True, cwd=SCR, env=env, capture_output=True)

def run_units():
    out = {}
    for u in units:
        g, t = gen.generate(os.path.join(UNITS, "%s.vrs" % u))
        p = os.path.join(SCR, "%s.rs" % u)
        open(p, "w").write(t)
        r = verus.run_verus(p)
        per, stray, fe, vr = verus.analyse(r, g.obligations)
        unposed = [o["id"] for o in g.obligations if not o.get("posed")]
        out[u] = {"failed": [k for k, v in per.items() if v["verdict"] == "failed"], "rlimit": [k for k, v in per.items() if v["verdict"] == "rlimit"],
                  "notrun": bool(fe) or vr is None, "unposed": unposed, "stray": len(stray)}
    return out

BND = None
def run_bounded():
    """build /verif/bounded against the scratch copy and run the families; -> number of failures for the focus property"""
    global BND
    if BND is None:
        BND = os.path.join(SCR, "bounded")
        shutil.copytree("/verif/bounded", BND, ignore=shutil.ignore_patterns("target"))
        t = open(os.path.join(BND, "Cargo.toml")).read().replace("/repo/", SCR + "/")
        open(os.path.join(BND, "Cargo.toml"), "w").write(t)
    b = subprocess.run("cargo build --release --offline 2>&1 | tail -3", shell=True, cwd=BND, env=dict(env, CARGO_TARGET_DIR=os.path.join(SCR, "btarget")), capture_output=True, text=True)
    n = 0
    for fam in bounded_fams:
        outp = os.path.join(SCR, "b.json")
        if os.path.exists(outp):
            os.remove(outp)
        try:
            subprocess.run([os.path.join(SCR, "btarget", "release", "bounded"), fam, "--tier", "quick", "--out", outp, "--known", "/verif/known_findings.json"] + (["--focus", focus] if focus else []), capture_output=True, text=True, timeout=600)
        except subprocess.TimeoutExpired:
            n += 1  # the mutant hangs the library (e.g. a poll loop that never ends): killed
            continue
        try:
            d = json.load(open(outp))
            n += len([f for f in d.get("failures", []) if not f.get("known") and (focus is None or focus in f.get("properties", []))])
        except Exception:
            n += 1
    return n

base = run_units()
base_failed = set(sum((v["failed"] for v in base.values()), []))  # known findings of the unchanged tree
assert all(not v["notrun"] for v in base.values()), base
res = []
t0 = time.time()
for i, mu in enumerate(mutants):
    a, b = mu["span"]
    new = orig[:a] + (b"" if mu.get("delete") else mu["to"].encode()) + orig[b:]
    open(os.path.join(SCR, relfile), "wb").write(new)
    gen.SourceIndex  # noqa
    c = subprocess.run("cargo check -q -p %s --offline 2>&1 | grep -c '^error'" % crate, shell=True, cwd=SCR, env=env, capture_output=True, text=True)
    compiles = c.stdout.strip() == "0"
    if not compiles:
        mu["verdict"] = "does-not-compile"
    else:
        r = run_units()
        failed = [x for x in sum((v["failed"] for v in r.values()), []) if x not in base_failed]
        if failed:
            mu["verdict"] = "killed"
            mu["obligations"] = failed[:4]
        elif any(v["notrun"] or v["unposed"] for v in r.values()):
            mu["verdict"] = "undecided"
            mu["why"] = "front end / lost anchor"
        elif any(v["rlimit"] for v in r.values()):
            mu["verdict"] = "undecided"
            mu["why"] = "rlimit"
        else:
            mu["verdict"] = "survived"
            if bounded_fams:
                mu["bounded_failures"] = run_bounded()
                mu["verdict"] = "survived-verus-killed-by-bounded" if mu["bounded_failures"] else "survived-both"
    res.append(mu)
    print("%3d/%d %-16s %s:%d  %r -> %r  %s" % (i + 1, len(mutants), mu["verdict"], mu["fn"].split("::")[-1], mu["line"], mu["from"], mu["to"], ",".join(mu.get("obligations", []))), flush=True)
open(os.path.join(SCR, relfile), "wb").write(orig)
summary = {}
for m in res:
    summary[m["verdict"]] = summary.get(m["verdict"], 0) + 1
os.makedirs("/verif/mutation", exist_ok=True)
json.dump({"file": relfile, "units": units, "repo_head": subprocess.run("git -C /repo rev-parse --short HEAD", shell=True, capture_output=True, text=True).stdout.strip(),
           "summary": summary, "mutants": [{k: v for k, v in m.items() if k != "span"} for m in res], "wall_s": round(time.time() - t0)},
          open("/verif/mutation/%s.json" % relfile.replace("/", "_"), "w"), indent=1)
print("SUMMARY", relfile, summary)
shutil.rmtree(SCR, ignore_errors=True)
