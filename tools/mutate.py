#!/usr/bin/env python3
"""Contract-strength measurement: small syntactic mutants of the functions under contract, each run through the Verus
unit(s) on a scratch copy of /repo (never on /repo itself).  A mutant that still compiles (`cargo check`) and leaves every
obligation discharged *survived* the contracts: either it is equivalent, or the contract is too weak there (the bounded
run is then the only line of defence).  Results: /verif/mutation/<file>.json

usage: mutate.py <file relative to the repo> <crate> <unit[,unit…]> [substring of fn keys to restrict to …]"""
import sys, os, re, json, shutil, subprocess, tempfile, time
sys.path.insert(0, "/verif/vf")
relfile, crate, units = sys.argv[1], sys.argv[2], sys.argv[3].split(",")
only = sys.argv[4:]
SCR = os.path.join(os.environ.get("TMPDIR", "/var/tmp"), "eyeball-mut.%d" % os.getpid())
shutil.rmtree(SCR, ignore_errors=True)
os.makedirs(SCR)
subprocess.run("git -C /repo archive HEAD | tar -x -C %s" % SCR, shell=True, check=True)
shutil.copy("/repo/Cargo.lock", SCR)
os.environ["VERIF_REPO"] = SCR
import gen, verus

ext = json.loads(subprocess.run([gen.EXTRACT_BIN, os.path.join(SCR, relfile)], capture_output=True, text=True).stdout)[0]
orig = open(os.path.join(SCR, relfile), "rb").read()
fns = [it for it in ext["items"] if it["kind"] == "fn" and it["body"] and (not only or any(o in it["key"] for o in only))]

OPS = [
    (rb"\+= 1\b", b"-= 1"), (rb"-= 1\b", b"+= 1"), (rb"\+= 1\b", b"+= 2"),
    (rb" < ", b" <= "), (rb" <= ", b" < "), (rb" > ", b" >= "), (rb" >= ", b" > "), (rb" == ", b" != "), (rb" != ", b" == "),
    (rb" \+ 1\b", b""), (rb" - 1\b", b""), (rb" \+ 1\b", b" + 2"), (rb" - 1\b", b" - 2"),
    (rb"\bpush_front\b", b"push_back"), (rb"\bpush_back\b", b"push_front"), (rb"\bpop_front\b", b"pop_back"), (rb"\bpop_back\b", b"pop_front"),
    (rb"VectorDiff::PopFront\b", b"VectorDiff::PopBack"), (rb"VectorDiff::PopBack\b", b"VectorDiff::PopFront"),
    (rb"VectorDiff::PushFront\b", b"VectorDiff::PushBack"), (rb"VectorDiff::PushBack\b", b"VectorDiff::PushFront"),
    (rb"\btrue\b", b"false"), (rb"\bfalse\b", b"true"), (rb"\b0\b", b"1"), (rb"\b1\b", b"0"),
    (rb"\.is_some\(\)", b".is_none()"), (rb"\.is_none\(\)", b".is_some()"), (rb"&&", b"||"), (rb"\|\|", b"&&"),
    (rb"\bmin\(", b"max("), (rb"saturating_sub", b"wrapping_sub"),
]

mutants = []
for it in fns:
    bs, be = it["body"]
    body = orig[bs:be]
    for pat, rep in OPS:
        for m in re.finditer(pat, body):
            a, b = bs + m.start(), bs + m.end()
            line = orig.count(b"\n", 0, a) + 1
            mutants.append({"fn": it["key"], "line": line, "from": orig[a:b].decode(), "to": rep.decode(), "span": [a, b]})
    # statement deletion: single-line statements ending in `;` (not `let`, not `return`)
    off = bs
    for ln in body.split(b"\n"):
        st = ln.strip()
        if st.endswith(b";") and not st.startswith((b"let ", b"return", b"//", b"#")) and b"{" not in st and b"}" not in st:
            a = off + (len(ln) - len(ln.lstrip()))
            mutants.append({"fn": it["key"], "line": orig.count(b"\n", 0, a) + 1, "from": st.decode()[:60], "to": "<deleted>", "span": [a, off + len(ln)], "delete": True})
        off += len(ln) + 1

print("%d functions, %d mutants" % (len(fns), len(mutants)), flush=True)
env = dict(os.environ, CARGO_NET_OFFLINE="true", CARGO_TARGET_DIR=os.path.join(SCR, "target"))
subprocess.run("cargo check -q -p %s --offline" % crate, shell=True, cwd=SCR, env=env, capture_output=True)

def run_units():
    out = {}
    for u in units:
        g, t = gen.generate("/verif/units/%s.vrs" % u)
        p = os.path.join(SCR, "%s.rs" % u)
        open(p, "w").write(t)
        r = verus.run_verus(p)
        per, stray, fe, vr = verus.analyse(r, g.obligations)
        unposed = [o["id"] for o in g.obligations if not o.get("posed")]
        out[u] = {"failed": [k for k, v in per.items() if v["verdict"] == "failed"], "rlimit": [k for k, v in per.items() if v["verdict"] == "rlimit"],
                  "notrun": bool(fe) or vr is None, "unposed": unposed, "stray": len(stray)}
    return out

base = run_units()
assert all(not v["failed"] and not v["notrun"] for v in base.values()), base
res = []
t0 = time.time()
for i, mu in enumerate(mutants):
    a, b = mu["span"]
    new = orig[:a] + (b"" if mu.get("delete") else mu["to"].encode()) + orig[b:]
    open(os.path.join(SCR, relfile), "wb").write(new)
    gen.SourceIndex  # noqa
    c = subprocess.run("cargo check -q -p %s --offline 2>&1 | grep -c '^error'" % crate, shell=True, cwd=SCR, env=env, capture_output=True, text=True)
    compiles = c.stdout.strip() == "0"
    if not compiles:
        mu["verdict"] = "does-not-compile"
    else:
        r = run_units()
        failed = sum((v["failed"] for v in r.values()), [])
        if failed:
            mu["verdict"] = "killed"
            mu["obligations"] = failed[:4]
        elif any(v["notrun"] or v["unposed"] for v in r.values()):
            mu["verdict"] = "undecided"
            mu["why"] = "front end / lost anchor"
        elif any(v["rlimit"] for v in r.values()):
            mu["verdict"] = "undecided"
            mu["why"] = "rlimit"
        else:
            mu["verdict"] = "survived"
    res.append(mu)
    print("%3d/%d %-16s %s:%d  %r -> %r  %s" % (i + 1, len(mutants), mu["verdict"], mu["fn"].split("::")[-1], mu["line"], mu["from"], mu["to"], ",".join(mu.get("obligations", []))), flush=True)
open(os.path.join(SCR, relfile), "wb").write(orig)
summary = {}
for m in res:
    summary[m["verdict"]] = summary.get(m["verdict"], 0) + 1
os.makedirs("/verif/mutation", exist_ok=True)
json.dump({"file": relfile, "units": units, "repo_head": subprocess.run("git -C /repo rev-parse --short HEAD", shell=True, capture_output=True, text=True).stdout.strip(),
           "summary": summary, "mutants": [{k: v for k, v in m.items() if k != "span"} for m in res], "wall_s": round(time.time() - t0)},
          open("/verif/mutation/%s.json" % relfile.replace("/", "_"), "w"), indent=1)
print("SUMMARY", relfile, summary)
shutil.rmtree(SCR, ignore_errors=True)
