#!/bin/sh
# run every registered check once on the current tree (refreshes /verif/evidence); usage: run_all.sh [quick|thorough]
cd /verif
T=${1:-quick}
for p in $(python3 -c "import json;print(' '.join(c['property_id'] for c in json.load(open('MANIFEST.json'))['checks']))"); do
  ./check $p --tier $T > /tmp/runall.$p.log 2>&1; rc=$?
  echo "$p rc=$rc $(tail -1 /tmp/runall.$p.log | cut -c1-200)"
done
