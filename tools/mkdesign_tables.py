#!/usr/bin/env python3
"""Regenerate the measured tables of DESIGN.md (§10.3 status, §11 seeds) from evidence/*.json, vf/config.py and seeded/RESULTS.json."""
import json, os, sys, re, glob
HERE = os.path.dirname(os.path.dirname(os.path.abspath(__file__)))
sys.path.insert(0, os.path.join(HERE, "vf"))
import config

def status_table():
    rows = ["| | level | Verus units → obligations discharged (known findings) | functions under contract | bounded stand-ins (quick tier: evaluations) | extra engines |", "|---|---|---|---|---|---|"]
    for pid in ["C%02d" % i for i in range(1, 21)]:
        if pid in config.NOT_APPLICABLE:
            rows.append("| %s | not applicable | — | — | — | — |" % pid)
            continue
        c = config.PROPS[pid]
        evp = os.path.join(HERE, "evidence", pid + ".json")
        ev = json.load(open(evp)) if os.path.exists(evp) else None
        cov = ev["coverage"] if ev else {}
        ob = "%s → %s/%s%s" % (", ".join(c["units"]) or "—", cov.get("discharged", "?"), cov.get("obligations", "?"), (" (+%d known)" % cov["known_findings"]) if cov.get("known_findings") else "") if c["units"] else "— (Verus rejects the code)"
        nf = len(cov.get("functions_under_contract", []))
        bd = ", ".join("%s: %s" % (b["name"], b.get("evaluations")) for b in cov.get("bounded", []) if "evaluations" in b)
        ex = ", ".join(k for k in (cov.get("extra_engines") or {}).keys()) or "—"
        rows.append("| %s | %s | %s | %d | %s | %s |" % (pid, ev["level"] if ev else c["level"], ob, nf, bd or "—", ex))
    return "\n".join(rows)

def seeds_table():
    rp = os.path.join(HERE, "seeded", "RESULTS.json")
    res = json.load(open(rp)) if os.path.exists(rp) else {}
    rows = ["| seed | file(s) changed | exit | caught by (obligation / bounded check) |", "|---|---|---|---|"]
    for d in sorted(glob.glob(os.path.join(HERE, "seeded", "C*-*"))):
        name = os.path.basename(d)
        patch = open(os.path.join(d, "patch.diff")).read()
        files = sorted(set(re.findall(r"^\+\+\+ b/(\S+)", patch, re.M)))
        r = res.get(name, {})
        by = []
        for x in r.get("replays", []):
            o = x.get("obligation") or ""
            if o and o not in by:
                by.append(o)
        und = [l for l in r.get("lines", []) if l.startswith("UNDECIDED")]
        note = " (Verus undecided → bounded)" if und and not any(not b.startswith("bounded:") for b in by) else ""
        rows.append("| %s | %s | %s | %s%s |" % (name, ", ".join(f.split("/")[-1] for f in files), r.get("exit", "not run"), "; ".join("**%s**" % b if not b.startswith("bounded:") and not b.startswith("kani") else b for b in by) or "—", note))
    return "\n".join(rows)

def mutation_table():
    rows = ["| file | unit(s) | mutants | do not compile | killed by a Verus obligation | undecided (front end / lost anchor / rlimit) | survive Verus, killed by the bounded run | survive both | survive Verus (bounded not run) |", "|---|---|---|---|---|---|---|---|---|"]
    for f in sorted(glob.glob(os.path.join(HERE, "mutation", "*.json"))):
        d = json.load(open(f))
        sm = d["summary"]
        rows.append("| %s | %s | %d | %d | %d | %d | %d | %d | %d |" % (d["file"].split("/")[-2] + "/" + d["file"].split("/")[-1], ", ".join(d["units"]), len(d["mutants"]), sm.get("does-not-compile", 0), sm.get("killed", 0), sm.get("undecided", 0), sm.get("survived-verus-killed-by-bounded", 0), sm.get("survived-both", 0), sm.get("survived", 0)))
    return "\n".join(rows)

def refactor_table():
    rp = os.path.join(HERE, "refactors", "RESULTS.json")
    res = json.load(open(rp)) if os.path.exists(rp) else {}
    rows = ["| refactoring | file(s) | checks run (exit) | Verus obligations |", "|---|---|---|---|"]
    for k in sorted(res):
        v = res[k]
        und = sum(1 for c in v["checks"].values() for l in c["lines"] if l.startswith("UNDECIDED"))
        alarms = [p for p, c in v["checks"].items() if c["exit"] != 0 or any(l.startswith(("VIOLATION", "INTERNAL")) for l in c["lines"])]
        rows.append("| %s | %s | %s | %s |" % (k, ", ".join(f.split("/")[-1] for f in v["files"]), " ".join("%s:%s" % (p, c["exit"]) for p, c in v["checks"].items()), ("**ALARM in %s**" % ",".join(alarms)) if alarms else ("all re-proved" if not und else "some undecided (printed as UNDECIDED, exit 0)")))
    return "\n".join(rows)

def coverage_table():
    """per source file: which functions have their body verified, which appear only with an assumed contract (R-EXT), which are not
    under contract at all (bounded only) -- from the generator itself, on the current /repo"""
    import gen, subprocess
    units = sorted(set(u for c in config.PROPS.values() for u in c["units"]))
    verified, ext = {}, {}
    for u in units:
        g, _ = gen.generate(os.path.join(HERE, "units", u + ".vrs"))
        extsites = set(x["what"] for x in g.trusted if x.get("kind") == "R-EXT")
        for site in g.functions:
            f, key = site.split("::", 1)
            key = key.split("#closure")[0] + (" (closure)" if "#closure" in site else "")
            (ext if site in extsites else verified).setdefault(f, set()).add(key.replace("|", "\\|"))
    files = sorted(set(list(verified) + list(ext) + ["eyeball-im-util/src/vector/sort.rs", "eyeball-im/src/reusable_box.rs"]))
    rows = ["| file | functions (and lifted closures) whose body is verified | only as assumed contract (R-EXT / caller view) | other fns of the file: not under contract (bounded / Kani / trusted) |", "|---|---|---|---|"]
    for f in files:
        out = subprocess.run([gen.EXTRACT_BIN, os.path.join(gen.REPO, f)], capture_output=True, text=True).stdout
        allf = [it["key"] for it in json.loads(out)[0]["items"] if it["kind"] == "fn" and it.get("body") and "test" not in it["key"] and "fmt" != it["key"].split("::")[-1]]
        v = verified.get(f, set())
        vb = set(x.replace(" (closure)", "") for x in v)
        e = set(x for x in ext.get(f, set()) if x not in vb)
        rest = [k for k in allf if k.replace("|", "\\|") not in vb and k.replace("|", "\\|") not in e]
        short = lambda k: k.split("::")[-1] if "::" in k else k
        rows.append("| %s | %d: %s | %s | %s |" % (f.replace("src/", ""), len(v), ", ".join(sorted(set(short(x) for x in v))), ", ".join(sorted(set(short(x) for x in e))) or "—", ", ".join(sorted(set(short(x) for x in rest))) or "—"))
    return "\n".join(rows)

p = os.path.join(HERE, "DESIGN.md")
s = open(p).read()
for tag, fn in (("COVERAGE", coverage_table), ("STATUS", status_table), ("SEEDS", seeds_table), ("MUTATION", mutation_table), ("REFACTORS", refactor_table)):
    a = "<!-- BEGIN:%s -->" % tag
    b = "<!-- END:%s -->" % tag
    if a in s and b in s:
        s = s[:s.index(a) + len(a)] + "\n" + fn() + "\n" + s[s.index(b):]
open(p, "w").write(s)
print("tables regenerated")
