#!/usr/bin/env python3
"""Render /verif/MANIFEST.json from vf/config.py (single source of truth for what is claimed)."""
import json, os, sys
HERE = os.path.dirname(os.path.dirname(os.path.abspath(__file__)))
sys.path.insert(0, os.path.join(HERE, "vf"))
import importlib, config
importlib.reload(config)
checks = []
for pid in sorted(config.PROPS):
    c = config.PROPS[pid]
    checks.append({
        "property_id": pid,
        "quick_cmd": "./check %s --tier quick" % pid,
        "thorough_cmd": "./check %s --tier thorough" % pid,
        "evidence_file": "/verif/evidence/%s.json" % pid,
        "replay_cmd_template": "./check %s --replay {path}" % pid,
        "engine": "verus+bounded" if c["units"] else "bounded",
        "level_claimed": {"category": c["level"], "text": c["text"], "design_ref": "DESIGN.md §6 / %s" % pid},
        "level_note": c["note"],
        "technique": c["technique"],
    })
na = [{"property_id": k, "reason": v} for k, v in sorted(config.NOT_APPLICABLE.items())]
na += [{"property_id": k, "reason": v} for k, v in sorted(config.PENDING.items()) if k not in config.PROPS]
m = {
    "version": 1,
    "setup_cmd": "./setup.sh",
    "hooks": {
        "guard": "eyeball_verif",
        "enable": "no source hook is needed: Verus reads source text, the bounded crate drives the public API; the guard is unused",
        "baseline_off_cmd": "cd /repo && cargo test --workspace --no-fail-fast --offline",
        "source_commits": [],
        "add_only": True,
    },
    "engines": [
        {"name": "verus", "path": "/verif/vf", "serves_properties": [p for p in sorted(config.PROPS) if config.PROPS[p]["units"]], "kind_free_text": "contract-based deductive verification: real function text extracted by span (extract/), contracts spliced in (units/*.vrs), Verus/Z3 discharges one obligation per function x case x property"},
        {"name": "bounded", "path": "/verif/bounded", "serves_properties": [p for p in sorted(config.PROPS) if config.PROPS[p]["bounded"]], "kind_free_text": "bounded stand-in / counterexample finder / replay: exhaustive small-scope enumeration on the real crates"},
    ],
    "checks": checks,
    "not_applicable": na,
    "notes": "fix: commits in /repo: 238c062 (C08), 2ca69b9 (C10), 62b81db (C12), ab5626a (C09), a0c5537 (C19), cbc6576 (C03, concurrent last drops). Known findings: /verif/known_findings.json.",
}
json.dump(m, open(os.path.join(HERE, "MANIFEST.json"), "w"), indent=1)
print("MANIFEST.json: %d checks, %d not_applicable" % (len(checks), len(na)))
