#!/usr/bin/env python3
"""Confirm a sub-agent's seeded change in a scratch worktree of /repo HEAD:
   patch applies, suite stays green with the patch, the demonstration fails with it and passes without it.
   usage: confirm_seed.py <srcdir with patch.diff demo.diff> <name>   -> writes /verif/seeded/<name>/{patch.diff,demo.diff,demo files,meta.json}"""
import sys, os, subprocess, json, re, shutil, glob
src, name = sys.argv[1], sys.argv[2]
prop = sys.argv[3] if len(sys.argv) > 3 else name.split("-")[0]
WT = "/tmp/seedchk/wt"
def sh(cmd, cwd=None, timeout=1800):
    r = subprocess.run(cmd, shell=True, cwd=cwd, capture_output=True, text=True, timeout=timeout)
    return r.returncode, r.stdout + r.stderr
if not os.path.isdir(WT):
    os.makedirs("/tmp/seedchk", exist_ok=True)
    print(sh("git -C /repo worktree add --detach %s HEAD" % WT)[1])
sh("git checkout -q --detach $(git -C /repo rev-parse HEAD) && git checkout -- . && git clean -fdq -e target", cwd=WT)
meta = {"property": prop, "source": src, "repo_head": sh("git -C /repo rev-parse --short HEAD")[1].strip(), "ran": []}
def step(desc, cmd, expect_ok=None):
    rc, out = sh(cmd, cwd=WT)
    meta["ran"].append({"cmd": cmd, "rc": rc, "desc": desc})
    ok = (rc == 0)
    print("%-55s rc=%d" % (desc, rc))
    if expect_ok is not None and ok != expect_ok:
        print(out[-3000:])
    return ok, out
patch = os.path.join(src, "patch.diff"); demo = os.path.join(src, "demo.diff")
ok, out = step("patch applies", "git apply --check %s" % patch, True)
if not ok:
    ok3, out3 = step("patch applies with 3way", "git apply --3way --check %s" % patch, True)
    if not ok3:
        meta["verdict"] = "patch does not apply to current HEAD"; print(json.dumps(meta["verdict"])); sys.exit(1)
step("apply patch", "git apply %s || git apply --3way %s" % (patch, patch), True)
ok, out = step("suite with patch", "cargo test --workspace --offline 2>&1 | grep -E 'test result|FAILED|error\\[|could not compile'", True)
suite_ok = ok and "FAILED" not in out and "error" not in out.lower().replace("0 errors","")
m = re.findall(r"test result: (\w+)\. (\d+) passed; (\d+) failed", out)
meta["suite_with_patch"] = m
suite_ok = bool(m) and all(x[0] == "ok" for x in m) and "error[" not in out and "could not compile" not in out
print("   suite:", m)
ok, _ = step("apply demo", "git apply %s" % demo, True)
dtext = open(demo).read()
mods = re.findall(r"^\+mod (\w+);", dtext, re.M)
crates = sorted(set(re.findall(r"^\+\+\+ b/([\w-]+)/tests/it/", dtext, re.M)))
examples = re.findall(r"^\+\+\+ b/([\w-]+)/examples/(\w+)\.rs", dtext, re.M)
def run_demo():
    res = []
    for c in crates:
        for mo in mods:
            cmd = "cargo test -p %s %s --offline --test it %s:: 2>&1 | tail -15" % (c, "--features async-lock" if c == "eyeball" else "", mo)
            rc, out = sh(cmd, cwd=WT)
            mm = re.findall(r"test result: (\w+)\. (\d+) passed; (\d+) failed", out)
            res.append((c, mo, mm, "could not compile" in out))
    for c, ex in examples:
        rc, out = sh("cargo run -p %s --offline --example %s 2>&1 | tail -5; echo rc=$?" % (c, ex), cwd=WT)
        res.append((c, ex, "run", out[-200:]))
    return res
with_patch = run_demo()
print("   demo with patch   :", with_patch)
step("revert patch", "git apply -R %s" % patch, True)
without = run_demo()
print("   demo without patch:", without)
def failed(res): return any((isinstance(r[2], list) and any(x[0] != "ok" or int(x[2]) > 0 for x in r[2])) or r[3] is True for r in res if r[2] != "run") or any(r[2]=="run" and "rc=0" not in r[3] for r in res)
def passed(res): return bool(res) and all((isinstance(r[2], list) and r[2] and all(x[0] == "ok" and int(x[1]) > 0 for x in r[2]) and not r[3]) if r[2] != "run" else "rc=0" in r[3] for r in res)
meta["demo_with_patch"] = str(with_patch); meta["demo_without_patch"] = str(without)
good = suite_ok and failed(with_patch) and passed(without)
meta["confirmed"] = good
print("CONFIRMED" if good else "NOT CONFIRMED", name)
sh("git checkout -- . && git clean -fdq -e target", cwd=WT)
if good:
    d = "/verif/seeded/%s" % name
    os.makedirs(d, exist_ok=True)
    for f in glob.glob(os.path.join(src, "*")):
        if os.path.isfile(f): shutil.copy(f, d)
    notes = os.path.join(src, "notes.md")
    meta["needs"] = open(notes).read()[:1500] if os.path.exists(notes) else ""
    json.dump(meta, open(os.path.join(d, "meta.json"), "w"), indent=1)
sys.exit(0 if good else 1)
