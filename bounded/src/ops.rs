//! Source operations on an ObservableVector, their model, enumeration and (de)serialisation.
use crate::harness::It;
use eyeball_im::{ObservableVector, ObservableVectorTransaction};
use imbl::Vector;

#[derive(Clone, Debug, PartialEq, Eq, Hash)]
pub enum TxEnd {
    Commit,
    Rollback,
    Drop,
    RollbackThenCommit, // rollback, then the *same* ops again, then commit (partial rollback path)
    /// every stream is dropped while the transaction is open, then it is committed (handled by the scenario runner)
    DropStreamsThenCommit,
}

#[derive(Clone, Debug, PartialEq, Eq, Hash)]
pub enum Op {
    Append(usize),
    Clear,
    PushFront,
    PushBack,
    PopFront,
    PopBack,
    Insert(usize),
    Set(usize),
    Remove(usize),
    Truncate(usize),
    Tx(Vec<Op>, TxEnd),
    /// change the parameter (limit/count) of stage `.0` to `.1`
    SetParam(usize, usize),
    /// close the parameter stream of stage `.0`
    CloseParam(usize),
}

impl Op {
    pub fn kind(&self) -> &'static str {
        match self {
            Op::Append(_) => "Append",
            Op::Clear => "Clear",
            Op::PushFront => "PushFront",
            Op::PushBack => "PushBack",
            Op::PopFront => "PopFront",
            Op::PopBack => "PopBack",
            Op::Insert(_) => "Insert",
            Op::Set(_) => "Set",
            Op::Remove(_) => "Remove",
            Op::Truncate(_) => "Truncate",
            Op::Tx(..) => "Tx",
            Op::SetParam(..) => "SetParam",
            Op::CloseParam(_) => "CloseParam",
        }
    }
    pub fn is_source_op(&self) -> bool {
        !matches!(self, Op::SetParam(..) | Op::CloseParam(_))
    }
    pub fn to_text(&self) -> String {
        match self {
            Op::Append(k) => format!("Append({})", k),
            Op::Clear => "Clear".into(),
            Op::PushFront => "PushFront".into(),
            Op::PushBack => "PushBack".into(),
            Op::PopFront => "PopFront".into(),
            Op::PopBack => "PopBack".into(),
            Op::Insert(i) => format!("Insert({})", i),
            Op::Set(i) => format!("Set({})", i),
            Op::Remove(i) => format!("Remove({})", i),
            Op::Truncate(i) => format!("Truncate({})", i),
            Op::Tx(ops, end) => format!("Tx[{}]{:?}", ops.iter().map(|o| o.to_text()).collect::<Vec<_>>().join(";"), end),
            Op::SetParam(s, v) => format!("SetParam({},{})", s, v),
            Op::CloseParam(s) => format!("CloseParam({})", s),
        }
    }
    pub fn parse(s: &str) -> Option<Op> {
        let s = s.trim();
        if let Some(rest) = s.strip_prefix("Tx[") {
            let close = rest.rfind(']')?;
            let inner = &rest[..close];
            let end = match &rest[close + 1..] {
                "Commit" => TxEnd::Commit,
                "Rollback" => TxEnd::Rollback,
                "Drop" => TxEnd::Drop,
                "RollbackThenCommit" => TxEnd::RollbackThenCommit,
                "DropStreamsThenCommit" => TxEnd::DropStreamsThenCommit,
                _ => return None,
            };
            let mut ops = Vec::new();
            if !inner.is_empty() {
                for p in inner.split(';') {
                    ops.push(Op::parse(p)?);
                }
            }
            return Some(Op::Tx(ops, end));
        }
        let (name, args) = match s.find('(') {
            Some(i) => (&s[..i], s[i + 1..s.len() - 1].split(',').map(|x| x.trim().parse::<usize>().ok()).collect::<Option<Vec<_>>>()?),
            None => (s, vec![]),
        };
        Some(match (name, args.as_slice()) {
            ("Append", [k]) => Op::Append(*k),
            ("Clear", []) => Op::Clear,
            ("PushFront", []) => Op::PushFront,
            ("PushBack", []) => Op::PushBack,
            ("PopFront", []) => Op::PopFront,
            ("PopBack", []) => Op::PopBack,
            ("Insert", [i]) => Op::Insert(*i),
            ("Set", [i]) => Op::Set(*i),
            ("Remove", [i]) => Op::Remove(*i),
            ("Truncate", [i]) => Op::Truncate(*i),
            ("SetParam", [a, b]) => Op::SetParam(*a, *b),
            ("CloseParam", [a]) => Op::CloseParam(*a),
            _ => return None,
        })
    }
    /// kinds of all primitive operations inside (flattening transactions)
    pub fn flat_kinds(&self, out: &mut Vec<&'static str>) {
        match self {
            Op::Tx(ops, _) => {
                out.push("Tx");
                for o in ops {
                    o.flat_kinds(out);
                }
            }
            o => out.push(o.kind()),
        }
    }
}

/// Plain-vector model of the source.
#[derive(Clone, Debug)]
pub struct Model {
    pub v: Vec<u32>,
    pub next: u32,
}
impl Model {
    pub fn new(n: usize) -> Model {
        Model { v: (0..n as u32).collect(), next: n as u32 }
    }
    fn fresh(&mut self) -> u32 {
        let x = self.next;
        self.next += 1;
        x
    }
    /// applies a primitive op the way a plain vector would; returns false if it would panic (out of range)
    pub fn apply(&mut self, op: &Op) -> bool {
        match op {
            Op::Append(k) => {
                for _ in 0..*k {
                    let x = self.fresh();
                    self.v.push(x);
                }
            }
            Op::Clear => self.v.clear(),
            Op::PushFront => {
                let x = self.fresh();
                self.v.insert(0, x);
            }
            Op::PushBack => {
                let x = self.fresh();
                self.v.push(x);
            }
            Op::PopFront => {
                if !self.v.is_empty() {
                    self.v.remove(0);
                }
            }
            Op::PopBack => {
                self.v.pop();
            }
            Op::Insert(i) => {
                let x = self.fresh();
                if *i > self.v.len() {
                    return false;
                }
                self.v.insert(*i, x);
            }
            Op::Set(i) => {
                let x = self.fresh();
                if *i >= self.v.len() {
                    return false;
                }
                self.v[*i] = x;
            }
            Op::Remove(i) => {
                if *i >= self.v.len() {
                    return false;
                }
                self.v.remove(*i);
            }
            Op::Truncate(n) => {
                if *n < self.v.len() {
                    self.v.truncate(*n);
                }
            }
            Op::Tx(ops, end) => {
                let saved = self.clone();
                for o in ops {
                    if !self.apply(o) {
                        return false;
                    }
                }
                match end {
                    TxEnd::Commit | TxEnd::DropStreamsThenCommit => {}
                    TxEnd::Rollback | TxEnd::Drop => {
                        let next = self.next;
                        *self = saved;
                        self.next = next;
                    }
                    TxEnd::RollbackThenCommit => {
                        let next = self.next;
                        *self = saved;
                        self.next = next;
                        for o in ops {
                            if !self.apply(o) {
                                return false;
                            }
                        }
                    }
                }
            }
            Op::SetParam(..) | Op::CloseParam(_) => {}
        }
        true
    }
}

/// Value source shared by the model and the real vector so both insert the same fresh ids.
pub struct Fresh(pub u32);
impl Fresh {
    pub fn get(&mut self) -> It {
        let x = self.0;
        self.0 += 1;
        It::new(x)
    }
}

fn apply_tx_prim(tx: &mut ObservableVectorTransaction<'_, It>, op: &Op, fresh: &mut Fresh) {
    match op {
        Op::Append(k) => {
            let mut v = Vector::new();
            for _ in 0..*k {
                v.push_back(fresh.get());
            }
            tx.append(v);
        }
        Op::Clear => tx.clear(),
        Op::PushFront => tx.push_front(fresh.get()),
        Op::PushBack => tx.push_back(fresh.get()),
        Op::PopFront => {
            tx.pop_front();
        }
        Op::PopBack => {
            tx.pop_back();
        }
        Op::Insert(i) => tx.insert(*i, fresh.get()),
        Op::Set(i) => {
            tx.set(*i, fresh.get());
        }
        Op::Remove(i) => {
            tx.remove(*i);
        }
        Op::Truncate(n) => tx.truncate(*n),
        _ => panic!("nested tx / param op inside a transaction"),
    }
}

/// Transaction during which `mid` runs (the scenario runner drops the streams there) before the commit.
pub fn apply_tx_with_midpoint(ob: &mut ObservableVector<It>, ops: &[Op], fresh: &mut Fresh, mid: impl FnOnce()) {
    let mut tx = ob.transaction();
    for o in ops {
        apply_tx_prim(&mut tx, o, fresh);
    }
    mid();
    tx.commit();
}

/// Applies a source op to the real ObservableVector (param ops are handled by the scenario runner).
pub fn apply_real(ob: &mut ObservableVector<It>, op: &Op, fresh: &mut Fresh) {
    match op {
        Op::Append(k) => {
            let mut v = Vector::new();
            for _ in 0..*k {
                v.push_back(fresh.get());
            }
            ob.append(v);
        }
        Op::Clear => ob.clear(),
        Op::PushFront => ob.push_front(fresh.get()),
        Op::PushBack => ob.push_back(fresh.get()),
        Op::PopFront => {
            ob.pop_front();
        }
        Op::PopBack => {
            ob.pop_back();
        }
        Op::Insert(i) => ob.insert(*i, fresh.get()),
        Op::Set(i) => {
            ob.set(*i, fresh.get());
        }
        Op::Remove(i) => {
            ob.remove(*i);
        }
        Op::Truncate(n) => ob.truncate(*n),
        Op::Tx(ops, end) => {
            let mut tx = ob.transaction();
            for o in ops {
                apply_tx_prim(&mut tx, o, fresh);
            }
            match end {
                TxEnd::Commit | TxEnd::DropStreamsThenCommit => tx.commit(),
                TxEnd::Rollback => {
                    tx.rollback();
                    drop(tx);
                }
                TxEnd::Drop => drop(tx),
                TxEnd::RollbackThenCommit => {
                    tx.rollback();
                    for o in ops {
                        apply_tx_prim(&mut tx, o, fresh);
                    }
                    tx.commit();
                }
            }
        }
        Op::SetParam(..) | Op::CloseParam(_) => {}
    }
}

/// All in-range primitive source ops on a vector of length n.
pub fn prim_ops(n: usize) -> Vec<Op> {
    let mut v = vec![Op::Append(0), Op::Append(1), Op::Append(2), Op::Clear, Op::PushFront, Op::PushBack, Op::PopFront, Op::PopBack];
    for i in 0..=n {
        v.push(Op::Insert(i));
    }
    for i in 0..n {
        v.push(Op::Set(i));
        v.push(Op::Remove(i));
    }
    for i in 0..=n {
        v.push(Op::Truncate(i));
    }
    v
}

/// A reduced op set used inside transactions (keeps the branching factor manageable).
pub fn reduced_ops(n: usize) -> Vec<Op> {
    let mut v = vec![Op::Append(2), Op::Clear, Op::PushFront, Op::PushBack, Op::PopFront, Op::PopBack, Op::Insert(0)];
    if n > 0 {
        v.push(Op::Insert(n));
        v.push(Op::Set(0));
        v.push(Op::Remove(0));
        v.push(Op::Remove(n - 1));
        v.push(Op::Truncate(n - 1));
    }
    if n > 1 {
        v.push(Op::Set(n - 1));
        v.push(Op::Truncate(1));
        v.push(Op::Insert(1));
    }
    v
}

/// Transactions of exactly two (reduced) ops that are in range when applied in sequence.
pub fn tx2_ops(m: &Model, ends: &[TxEnd]) -> Vec<Op> {
    let mut out = Vec::new();
    for a in reduced_ops(m.v.len()) {
        let mut m1 = m.clone();
        if !m1.apply(&a) {
            continue;
        }
        for b in reduced_ops(m1.v.len()) {
            let mut m2 = m1.clone();
            if !m2.apply(&b) {
                continue;
            }
            for e in ends {
                out.push(Op::Tx(vec![a.clone(), b.clone()], e.clone()));
            }
        }
    }
    out
}

/// Transactions of exactly `len` ops drawn from a tiny op set, in range when applied in sequence.
pub fn txn_ops(m: &Model, len: usize, ends: &[TxEnd]) -> Vec<Op> {
    fn tiny(n: usize) -> Vec<Op> {
        let mut v = vec![Op::PushBack, Op::PushFront, Op::PopFront, Op::Clear, Op::Append(2)];
        if n > 0 {
            v.push(Op::Set(0));
            v.push(Op::Remove(n - 1));
        }
        if n > 1 {
            v.push(Op::Insert(1));
            v.push(Op::Truncate(1));
        }
        v
    }
    fn rec(m: &Model, len: usize, cur: &mut Vec<Op>, out: &mut Vec<Vec<Op>>) {
        if len == 0 {
            out.push(cur.clone());
            return;
        }
        for o in tiny(m.v.len()) {
            let mut m2 = m.clone();
            if !m2.apply(&o) {
                continue;
            }
            cur.push(o);
            rec(&m2, len - 1, cur, out);
            cur.pop();
        }
    }
    let mut seqs = Vec::new();
    rec(m, len, &mut Vec::new(), &mut seqs);
    let mut out = Vec::new();
    for s in seqs {
        for e in ends {
            out.push(Op::Tx(s.clone(), e.clone()));
        }
    }
    out
}
