//! C17 (mutators / entries behave like a plain vector; out-of-range panics change nothing) and
//! C18 (VectorDiff::apply / map) — exhaustive over small vectors on the real crate.
use crate::harness::*;
use eyeball_im::{ObservableVector, ObservableVectorEntry, ObservableVectorTransactionEntry, VectorDiff};
use imbl::Vector;
use std::panic::{catch_unwind, AssertUnwindSafe};
use std::task::Poll;

pub struct PFail {
    pub property: &'static str,
    pub classification: String,
    pub what: String,
    pub expected: String,
    pub observed: String,
    pub input: serde_json::Value,
}

fn vecof(n: usize) -> Vector<It> {
    (0..n as u32).map(It::new).collect()
}

/// every diff kind with every index/length from 0 to n+1 (in range and beyond)
fn all_diffs(n: usize) -> Vec<VectorDiff<It>> {
    let mut v = vec![VectorDiff::Clear, VectorDiff::PopFront, VectorDiff::PopBack, VectorDiff::PushFront { value: It::new(90) }, VectorDiff::PushBack { value: It::new(91) }];
    for k in 0..3usize {
        v.push(VectorDiff::Append { values: (0..k as u32).map(|i| It::new(70 + i)).collect() });
        v.push(VectorDiff::Reset { values: (0..k as u32).map(|i| It::new(80 + i)).collect() });
    }
    for i in 0..=n + 2 {
        v.push(VectorDiff::Insert { index: i, value: It::new(92) });
        v.push(VectorDiff::Set { index: i, value: It::new(93) });
        v.push(VectorDiff::Remove { index: i });
        v.push(VectorDiff::Truncate { length: i });
    }
    v
}

/// reference semantics: None = must panic
fn model_apply(d: &VectorDiff<It>, s: &[u32]) -> Option<Vec<u32>> {
    let mut v = s.to_vec();
    match d {
        VectorDiff::Append { values } => v.extend(values.iter().map(|x| x.0)),
        VectorDiff::Clear => v.clear(),
        VectorDiff::PushFront { value } => v.insert(0, value.0),
        VectorDiff::PushBack { value } => v.push(value.0),
        VectorDiff::PopFront => {
            if !v.is_empty() {
                v.remove(0);
            }
        }
        VectorDiff::PopBack => {
            v.pop();
        }
        VectorDiff::Insert { index, value } => {
            if *index > v.len() {
                return None;
            }
            v.insert(*index, value.0)
        }
        VectorDiff::Set { index, value } => {
            if *index >= v.len() {
                return None;
            }
            v[*index] = value.0
        }
        VectorDiff::Remove { index } => {
            if *index >= v.len() {
                return None;
            }
            v.remove(*index);
        }
        VectorDiff::Truncate { length } => {
            if *length < v.len() {
                v.truncate(*length)
            }
        }
        VectorDiff::Reset { values } => v = values.iter().map(|x| x.0).collect(),
    }
    Some(v)
}

pub fn check_diffmap(maxn: usize) -> (usize, usize, Vec<PFail>) {
    let mut fails = Vec::new();
    let mut evals = 0;
    let mut kinds = std::collections::BTreeSet::new();
    for n in 0..=maxn {
        for d in all_diffs(n) {
            evals += 1;
            let s: Vec<u32> = (0..n as u32).collect();
            let exp = model_apply(&d, &s);
            kinds.insert((diff_kind(&d), exp.is_some(), n == 0));
            let inp = serde_json::json!({"kind": "diffmap", "vector_len": n, "diff": fmt_diff(&d)});
            // apply
            let mut v = vecof(n);
            let d2 = d.clone();
            let r = catch_unwind(AssertUnwindSafe(|| d2.apply(&mut v)));
            match (&exp, r.is_ok()) {
                (Some(e), true) => {
                    if &ids(&v) != e {
                        fails.push(PFail { property: "C18", classification: format!("apply/{}", diff_kind(&d)), what: "apply does not perform the documented change".into(), expected: format!("{:?}", e), observed: format!("{:?}", ids(&v)), input: inp.clone() });
                    }
                }
                (None, false) => {}
                (Some(e), false) => fails.push(PFail { property: "C18", classification: format!("apply/{}", diff_kind(&d)), what: "apply panicked although only insert/set/remove beyond the end may panic".into(), expected: format!("{:?}", e), observed: "panic".into(), input: inp.clone() }),
                (None, true) => fails.push(PFail { property: "C18", classification: format!("apply/{}", diff_kind(&d)), what: "apply did not panic for an index beyond the end".into(), expected: "panic".into(), observed: format!("{:?}", ids(&v)), input: inp.clone() }),
            }
            // map commutes with apply (f = +100), identity map returns an equal diff
            if let Some(e) = &exp {
                let f = |x: It| It::new(x.0 + 100);
                let md = d.clone().map(f);
                let mut mv: Vector<It> = vecof(n).into_iter().map(f).collect();
                let r2 = catch_unwind(AssertUnwindSafe(|| md.apply(&mut mv)));
                let want: Vec<u32> = e.iter().map(|x| x + 100).collect();
                if r2.is_err() || ids(&mv) != want {
                    fails.push(PFail { property: "C18", classification: format!("map/{}", diff_kind(&d)), what: "applying the mapped diff to the mapped vector differs from mapping the result of the original diff".into(), expected: format!("{:?}", want), observed: if r2.is_err() { "panic".into() } else { format!("{:?}", ids(&mv)) }, input: inp.clone() });
                }
            }
            let idd = d.clone().map(|x| x);
            if idd != d {
                fails.push(PFail { property: "C18", classification: format!("map/{}", diff_kind(&d)), what: "mapping with the identity does not return an equal diff".into(), expected: fmt_diff(&d), observed: fmt_diff(&idd), input: inp.clone() });
            }
        }
    }
    (evals, kinds.len(), fails)
}

// ---------------------------------------------------------------- C17
#[derive(Clone, Copy, Debug, PartialEq, Eq)]
pub enum Dec {
    Keep,
    Set,
    Remove,
    SetRemove,
    Stop,
}

fn drain_single(s: &mut eyeball_im::VectorSubscriberStream<It>) -> Vec<VectorDiff<It>> {
    let f = Flag::new();
    let mut out = Vec::new();
    while let Poll::Ready(Some(d)) = poll_once(s, &f) {
        out.push(d);
    }
    out
}

pub fn check_mutators(maxn: usize) -> (usize, usize, Vec<PFail>) {
    let mut fails = Vec::new();
    let mut evals = 0;
    let mut kinds = std::collections::BTreeSet::new();
    // (1) every mutator with every index from 0 to n+2, directly and inside a transaction; out of range must panic
    //     without changing the contents or notifying anyone
    for n in 0..=maxn {
        for (tx, grow) in [(false, false), (true, false), (true, true)] {
            // grow: the transaction first appends two items, so that indices beyond the pre-transaction length are in range
            // submode: 0 = a subscriber is alive, 1 = nobody ever subscribed, 2 = the only subscriber was dropped
            for submode in 0..3usize {
            for opk in 0..11usize {
                let idxs: Vec<usize> = if (6..=9).contains(&opk) { (0..=n + 2).collect() } else { vec![0] };
                for i in idxs {
                    evals += 1;
                    let mut ob = ObservableVector::<It>::new();
                    ob.append(vecof(n));
                    let mut sub = ob.subscribe().into_stream();
                    if submode == 1 {
                        // replace by a vector nobody ever subscribed to (the stream above belongs to the old one and stays silent)
                        ob = ObservableVector::<It>::new();
                        ob.append(vecof(n));
                    } else if submode == 2 {
                        let other = ObservableVector::<It>::new();
                        sub = other.subscribe().into_stream(); // drops the only subscriber of `ob`
                    }
                    let s: Vec<u32> = (0..n as u32).collect();
                    let nv = It::new(50);
                    // reference: (new contents, returned value) or None = panic
                    let mut v = s.clone();
                    if grow {
                        v.push(60);
                        v.push(61);
                    }
                    let mut ret: Option<Option<u32>> = Some(None);
                    let mut panics = false;
                    let name;
                    match opk {
                        0 => {
                            name = "append";
                            v.push(50);
                            v.push(51);
                        }
                        1 => {
                            name = "clear";
                            v.clear()
                        }
                        2 => {
                            name = "push_front";
                            v.insert(0, 50)
                        }
                        3 => {
                            name = "push_back";
                            v.push(50)
                        }
                        4 => {
                            name = "pop_front";
                            ret = Some(if v.is_empty() { None } else { Some(v.remove(0)) })
                        }
                        5 => {
                            name = "pop_back";
                            ret = Some(v.pop())
                        }
                        6 => {
                            name = "insert";
                            if i > v.len() {
                                panics = true
                            } else {
                                v.insert(i, 50)
                            }
                        }
                        7 => {
                            name = "set";
                            if i >= v.len() {
                                panics = true
                            } else {
                                ret = Some(Some(v[i]));
                                v[i] = 50
                            }
                        }
                        8 => {
                            name = "remove";
                            if i >= v.len() {
                                panics = true
                            } else {
                                ret = Some(Some(v.remove(i)))
                            }
                        }
                        9 => {
                            name = "truncate";
                            if i < v.len() {
                                v.truncate(i)
                            }
                        }
                        _ => {
                            name = "entry";
                            if i >= v.len() {
                                panics = true
                            }
                        }
                    }
                    kinds.insert((name, tx, panics, n == 0));
                    let inp = serde_json::json!({"kind": "mutators", "vector_len": n, "op": name, "index": i, "in_transaction": tx, "transaction_appends_two_items_first": grow, "subscriber": (["alive", "never", "dropped"][submode])});
                    let r = catch_unwind(AssertUnwindSafe(|| -> (Option<u32>, Vec<u32>) {
                        macro_rules! go {
                            ($t:expr) => {{
                                let t = $t;
                                let r: Option<u32> = match opk {
                                    0 => {
                                        t.append(Vector::from_iter([It::new(50), It::new(51)]));
                                        None
                                    }
                                    1 => {
                                        t.clear();
                                        None
                                    }
                                    2 => {
                                        t.push_front(nv.clone());
                                        None
                                    }
                                    3 => {
                                        t.push_back(nv.clone());
                                        None
                                    }
                                    4 => t.pop_front().map(|x| x.0),
                                    5 => t.pop_back().map(|x| x.0),
                                    6 => {
                                        t.insert(i, nv.clone());
                                        None
                                    }
                                    7 => Some(t.set(i, nv.clone()).0),
                                    8 => Some(t.remove(i).0),
                                    9 => {
                                        t.truncate(i);
                                        None
                                    }
                                    _ => {
                                        let e = t.entry(i);
                                        let _ = e;
                                        None
                                    }
                                };
                                r
                            }};
                        }
                        if tx {
                            let mut t = ob.transaction();
                            if grow {
                                t.push_back(It::new(60));
                                t.push_back(It::new(61));
                            }
                            let r = go!(&mut t);
                            let c = ids(&t);
                            t.commit();
                            (r, c)
                        } else {
                            let r = go!(&mut ob);
                            (r, ids(&ob))
                        }
                    }));
                    match (panics, r) {
                        (true, Ok(x)) => fails.push(PFail { property: "C17", classification: format!("mutators/{}", name), what: "an out-of-range index did not panic".into(), expected: "panic".into(), observed: format!("{:?}", x), input: inp }),
                        (true, Err(_)) => {
                            let after = ids(&ob);
                            let sent = drain_single(&mut sub);
                            if after != s || !sent.is_empty() {
                                fails.push(PFail { property: "C17", classification: format!("mutators/{}", name), what: "an out-of-range call panicked but changed the contents or notified a subscriber".into(), expected: format!("{:?}, no diff", s), observed: format!("{:?}, {} diff(s)", after, sent.len()), input: inp });
                            }
                        }
                        (false, Err(_)) => fails.push(PFail { property: "C17", classification: format!("mutators/{}", name), what: "an in-range call panicked".into(), expected: format!("{:?}", v), observed: "panic".into(), input: inp }),
                        (false, Ok((rv, contents))) => {
                            let rexp = ret.unwrap();
                            if contents != v || ids(&ob) != v || (opk >= 4 && opk <= 8 && opk != 6 && rv != rexp) {
                                fails.push(PFail { property: "C17", classification: format!("mutators/{}", name), what: "a mutator does not change the contents / return what the same operation on a plain vector would".into(), expected: format!("{:?} returning {:?}", v, rexp), observed: format!("{:?} / {:?} returning {:?}", contents, ids(&ob), rv), input: inp });
                            }
                        }
                    }
                }
            }
        }
    }
    }
    // (2) traversal: every per-element decision sequence, via entries() and for_each(), directly and in a transaction
    let decs = [Dec::Keep, Dec::Set, Dec::Remove, Dec::SetRemove, Dec::Stop];
    for n in 0..=maxn {
        let total = 5usize.pow(n as u32);
        for code in 0..total {
            let mut ds = Vec::new();
            let mut c = code;
            for _ in 0..n {
                ds.push(decs[c % 5]);
                c /= 5;
            }
            for mode in 0..4usize {
                // 0: entries(), 1: for_each (no Stop possible: Stop acts as Keep), 2: tx entries(), 3: tx for_each
                evals += 1;
                let s: Vec<u32> = (0..n as u32).collect();
                // reference
                let mut exp = Vec::new();
                let mut seen_exp = Vec::new();
                let mut idx_exp = Vec::new();
                let mut stopped = false;
                for (k, x) in s.iter().enumerate() {
                    if stopped {
                        exp.push(*x);
                        continue;
                    }
                    seen_exp.push(*x);
                    idx_exp.push(exp.len());
                    match ds[k] {
                        Dec::Keep => exp.push(*x),
                        Dec::Set => exp.push(x + 100),
                        Dec::Remove | Dec::SetRemove => {}
                        Dec::Stop => {
                            if mode % 2 == 0 {
                                stopped = true;
                            }
                            exp.push(*x)
                        }
                    }
                }
                kinds.insert(("traversal", mode >= 2, false, n == 0));
                let mode_name = ["entries", "for_each", "transaction entries", "transaction for_each"][mode];
                let inp = serde_json::json!({"kind": "traversal", "vector_len": n, "decisions": format!("{:?}", ds), "mode": mode_name});
                let mut ob = ObservableVector::<It>::new();
                ob.append(vecof(n));
                let mut seen = Vec::new();
                let mut idxs = Vec::new();
                let r = catch_unwind(AssertUnwindSafe(|| {
                    let mut k = 0usize;
                    macro_rules! act {
                        ($e:expr, $ty:ident) => {{
                            let mut e = $e;
                            seen.push((*e).0);
                            idxs.push($ty::index(&e));
                            let d = ds[k];
                            k += 1;
                            match d {
                                Dec::Keep => false,
                                Dec::Set => {
                                    let v = It::new((*e).0 + 100);
                                    $ty::set(&mut e, v);
                                    false
                                }
                                Dec::Remove => {
                                    $ty::remove(e);
                                    false
                                }
                                Dec::SetRemove => {
                                    let v = It::new((*e).0 + 100);
                                    $ty::set(&mut e, v);
                                    $ty::remove(e);
                                    false
                                }
                                Dec::Stop => true,
                            }
                        }};
                    }
                    match mode {
                        0 => {
                            let mut es = ob.entries();
                            while let Some(e) = es.next() {
                                if act!(e, ObservableVectorEntry) {
                                    break;
                                }
                            }
                        }
                        1 => ob.for_each(|e| {
                            act!(e, ObservableVectorEntry);
                        }),
                        2 => {
                            let mut t = ob.transaction();
                            {
                                let mut es = t.entries();
                                while let Some(e) = es.next() {
                                    if act!(e, ObservableVectorTransactionEntry) {
                                        break;
                                    }
                                }
                            }
                            t.commit();
                        }
                        _ => {
                            let mut t = ob.transaction();
                            t.for_each(|e| {
                                act!(e, ObservableVectorTransactionEntry);
                            });
                            t.commit();
                        }
                    }
                }));
                let got = ids(&ob);
                if r.is_err() || got != exp || seen != seen_exp || idxs != idx_exp {
                    fails.push(PFail { property: "C17", classification: format!("traversal/{}", ["entries", "for_each", "tx-entries", "tx-for_each"][mode]), what: "entry traversal does not visit every element exactly once in index order (or index()/the result is wrong)".into(), expected: format!("visited {:?} at {:?}, result {:?}", seen_exp, idx_exp, exp), observed: if r.is_err() { "panic".into() } else { format!("visited {:?} at {:?}, result {:?}", seen, idxs, got) }, input: inp });
                }
            }
        }
    }
    (evals, kinds.len(), fails)
}
