//! Polling utilities, controllable limit stream, taps, and the replica with applicability checks.
use eyeball_im::VectorDiff;
use futures_core::Stream;
use imbl::Vector;
use std::cell::RefCell;
use std::collections::VecDeque;
use std::pin::Pin;
use std::rc::Rc;
use std::sync::atomic::{AtomicBool, AtomicUsize, Ordering};
use std::sync::Arc;
use std::task::{Context, Poll, RawWaker, RawWakerVTable, Waker};

/// Item type: a distinguishable id. `class()` drives filter tables and sort keys.
/// Every live `It` (including every clone the library makes) is counted per thread, so that a history can check
/// that nothing it handed to the library is still alive once every vector, stream and diff is gone (C20).
pub struct Live;
thread_local! { pub static LIVE: std::cell::Cell<i64> = const { std::cell::Cell::new(0) }; }
pub fn live() -> i64 {
    LIVE.with(|l| l.get())
}
impl Live {
    fn new() -> Live {
        LIVE.with(|l| l.set(l.get() + 1));
        Live
    }
}
impl Clone for Live {
    fn clone(&self) -> Self {
        Live::new()
    }
}
impl Drop for Live {
    fn drop(&mut self) {
        LIVE.with(|l| l.set(l.get() - 1));
    }
}
impl std::fmt::Debug for Live {
    fn fmt(&self, _f: &mut std::fmt::Formatter<'_>) -> std::fmt::Result {
        Ok(())
    }
}
impl PartialEq for Live {
    fn eq(&self, _o: &Self) -> bool {
        true
    }
}
impl Eq for Live {}
impl std::hash::Hash for Live {
    fn hash<H: std::hash::Hasher>(&self, _h: &mut H) {}
}
impl PartialOrd for Live {
    fn partial_cmp(&self, _o: &Self) -> Option<std::cmp::Ordering> {
        Some(std::cmp::Ordering::Equal)
    }
}
impl Ord for Live {
    fn cmp(&self, _o: &Self) -> std::cmp::Ordering {
        std::cmp::Ordering::Equal
    }
}
#[derive(Clone, Debug, PartialEq, Eq, Hash, PartialOrd, Ord)]
pub struct It(pub u32, Live);
impl It {
    pub fn new(v: u32) -> It {
        It(v, Live::new())
    }
    pub fn class(&self, k: u32) -> usize {
        (self.0 % k) as usize
    }
}

pub type DynStream<I> = Pin<Box<dyn Stream<Item = I>>>;

// ---------------------------------------------------------------- flag waker
pub struct Flag {
    pub woken: AtomicBool,
    pub count: AtomicUsize,
}
impl Flag {
    pub fn new() -> Arc<Flag> {
        Arc::new(Flag { woken: AtomicBool::new(false), count: AtomicUsize::new(0) })
    }
    pub fn take(&self) -> bool {
        self.woken.swap(false, Ordering::SeqCst)
    }
    pub fn is_set(&self) -> bool {
        self.woken.load(Ordering::SeqCst)
    }
}
unsafe fn fw_clone(p: *const ()) -> RawWaker {
    Arc::increment_strong_count(p as *const Flag);
    RawWaker::new(p, &FW_VTABLE)
}
unsafe fn fw_wake(p: *const ()) {
    let a = Arc::from_raw(p as *const Flag);
    a.woken.store(true, Ordering::SeqCst);
    a.count.fetch_add(1, Ordering::SeqCst);
}
unsafe fn fw_wake_by_ref(p: *const ()) {
    let a = &*(p as *const Flag);
    a.woken.store(true, Ordering::SeqCst);
    a.count.fetch_add(1, Ordering::SeqCst);
}
unsafe fn fw_drop(p: *const ()) {
    drop(Arc::from_raw(p as *const Flag));
}
static FW_VTABLE: RawWakerVTable = RawWakerVTable::new(fw_clone, fw_wake, fw_wake_by_ref, fw_drop);
pub fn flag_waker(f: &Arc<Flag>) -> Waker {
    let p = Arc::into_raw(f.clone()) as *const ();
    unsafe { Waker::from_raw(RawWaker::new(p, &FW_VTABLE)) }
}

pub fn poll_once<S: Stream + Unpin>(s: &mut S, f: &Arc<Flag>) -> Poll<Option<S::Item>> {
    let w = flag_waker(f);
    let mut cx = Context::from_waker(&w);
    Pin::new(s).poll_next(&mut cx)
}

// ---------------------------------------------------------------- controllable stream (limits / counts)
pub struct QueueInner<T> {
    pub q: VecDeque<T>,
    pub closed: bool,
    pub waker: Option<Waker>,
}
pub struct QueueHandle<T>(pub Rc<RefCell<QueueInner<T>>>);
impl<T> Clone for QueueHandle<T> {
    fn clone(&self) -> Self {
        QueueHandle(self.0.clone())
    }
}
impl<T> QueueHandle<T> {
    pub fn new() -> Self {
        QueueHandle(Rc::new(RefCell::new(QueueInner { q: VecDeque::new(), closed: false, waker: None })))
    }
    pub fn push(&self, v: T) {
        let w = {
            let mut i = self.0.borrow_mut();
            i.q.push_back(v);
            i.waker.take()
        };
        if let Some(w) = w {
            w.wake();
        }
    }
    pub fn close(&self) {
        let w = {
            let mut i = self.0.borrow_mut();
            i.closed = true;
            i.waker.take()
        };
        if let Some(w) = w {
            w.wake();
        }
    }
    pub fn stream(&self) -> QueueStream<T> {
        QueueStream(self.0.clone())
    }
}
pub struct QueueStream<T>(Rc<RefCell<QueueInner<T>>>);
impl<T> Stream for QueueStream<T> {
    type Item = T;
    fn poll_next(self: Pin<&mut Self>, cx: &mut Context<'_>) -> Poll<Option<T>> {
        let mut i = self.0.borrow_mut();
        if let Some(v) = i.q.pop_front() {
            return Poll::Ready(Some(v));
        }
        if i.closed {
            return Poll::Ready(None);
        }
        i.waker = Some(cx.waker().clone());
        Poll::Pending
    }
}

// ---------------------------------------------------------------- tap
pub struct Tap<I> {
    pub inner: DynStream<I>,
    pub log: Rc<RefCell<Vec<I>>>,
    pub ended: Rc<RefCell<bool>>,
}
impl<I: Clone> Stream for Tap<I> {
    type Item = I;
    fn poll_next(mut self: Pin<&mut Self>, cx: &mut Context<'_>) -> Poll<Option<I>> {
        let r = self.inner.as_mut().poll_next(cx);
        match &r {
            Poll::Ready(Some(i)) => self.log.borrow_mut().push(i.clone()),
            Poll::Ready(None) => *self.ended.borrow_mut() = true,
            Poll::Pending => {}
        }
        r
    }
}

// ---------------------------------------------------------------- replica
pub fn diff_kind<T>(d: &VectorDiff<T>) -> &'static str {
    match d {
        VectorDiff::Append { .. } => "Append",
        VectorDiff::Clear => "Clear",
        VectorDiff::PushFront { .. } => "PushFront",
        VectorDiff::PushBack { .. } => "PushBack",
        VectorDiff::PopFront => "PopFront",
        VectorDiff::PopBack => "PopBack",
        VectorDiff::Insert { .. } => "Insert",
        VectorDiff::Set { .. } => "Set",
        VectorDiff::Remove { .. } => "Remove",
        VectorDiff::Truncate { .. } => "Truncate",
        VectorDiff::Reset { .. } => "Reset",
    }
}

/// `applicable` of the spec: indices in range, pops only on non-empty.
pub fn applicable<T: Clone>(d: &VectorDiff<T>, v: &Vector<T>) -> bool {
    match d {
        VectorDiff::Insert { index, .. } => *index <= v.len(),
        VectorDiff::Set { index, .. } => *index < v.len(),
        VectorDiff::Remove { index } => *index < v.len(),
        VectorDiff::PopFront | VectorDiff::PopBack => !v.is_empty(),
        _ => true,
    }
}
/// `emittable`: applicable, and no Truncate beyond the length.
pub fn emittable<T: Clone>(d: &VectorDiff<T>, v: &Vector<T>) -> bool {
    applicable(d, v)
        && match d {
            VectorDiff::Truncate { length } => *length <= v.len(),
            _ => true,
        }
}

pub fn fmt_diff(d: &VectorDiff<It>) -> String {
    match d {
        VectorDiff::Append { values } => format!("Append{:?}", values.iter().map(|x| x.0).collect::<Vec<_>>()),
        VectorDiff::Clear => "Clear".into(),
        VectorDiff::PushFront { value } => format!("PushFront({})", value.0),
        VectorDiff::PushBack { value } => format!("PushBack({})", value.0),
        VectorDiff::PopFront => "PopFront".into(),
        VectorDiff::PopBack => "PopBack".into(),
        VectorDiff::Insert { index, value } => format!("Insert({},{})", index, value.0),
        VectorDiff::Set { index, value } => format!("Set({},{})", index, value.0),
        VectorDiff::Remove { index } => format!("Remove({})", index),
        VectorDiff::Truncate { length } => format!("Truncate({})", length),
        VectorDiff::Reset { values } => format!("Reset{:?}", values.iter().map(|x| x.0).collect::<Vec<_>>()),
    }
}
pub fn ids(v: &Vector<It>) -> Vec<u32> {
    v.iter().map(|x| x.0).collect()
}

/// A container of diffs delivered as one stream item (single diff or batch).
pub trait Item: Clone + 'static {
    fn diffs(&self) -> Vec<VectorDiff<It>>;
    const BATCHED: bool;
}
impl Item for VectorDiff<It> {
    fn diffs(&self) -> Vec<VectorDiff<It>> {
        vec![self.clone()]
    }
    const BATCHED: bool = false;
}
impl Item for Vec<VectorDiff<It>> {
    fn diffs(&self) -> Vec<VectorDiff<It>> {
        self.clone()
    }
    const BATCHED: bool = true;
}
