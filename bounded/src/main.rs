//! bounded — exhaustive small-scope enumerators on the real crates (DESIGN.md §4).
//!   bounded <check> --tier quick|thorough --seed N --out FILE [--known FILE]
//!   bounded <check> --replay FILE
mod depcheck;
mod harness;
mod obs;
mod ops;
mod plain;
mod scenario;

use ops::*;
use scenario::*;
use std::collections::{BTreeMap, BTreeSet};
use std::sync::atomic::{AtomicUsize, Ordering};
use std::sync::Mutex;

pub struct Args {
    pub check: String,
    pub tier: String,
    pub seed: u64,
    pub out: Option<String>,
    pub known: Option<String>,
    pub replay: Option<String>,
    pub focus: Option<String>,
}

fn parse_args() -> Args {
    let a: Vec<String> = std::env::args().collect();
    let mut r = Args { check: a.get(1).cloned().unwrap_or_default(), tier: "quick".into(), seed: 0, out: None, known: None, replay: None, focus: None };
    let mut i = 2;
    while i < a.len() {
        match a[i].as_str() {
            "--tier" => {
                r.tier = a[i + 1].clone();
                i += 1;
            }
            "--seed" => {
                r.seed = a[i + 1].parse().unwrap_or(0);
                i += 1;
            }
            "--out" => {
                r.out = Some(a[i + 1].clone());
                i += 1;
            }
            "--known" => {
                r.known = Some(a[i + 1].clone());
                i += 1;
            }
            "--focus" => {
                r.focus = Some(a[i + 1].clone());
                i += 1;
            }
            "--replay" => {
                r.replay = Some(a[i + 1].clone());
                i += 1;
            }
            _ => {}
        }
        i += 1;
    }
    r
}

/// Known findings for bounded checks: (property, classification-substring) pairs; a failure whose window tags
/// contain the trigger of a listed finding (same stage) is reported as KNOWN-FINDING, not as a violation.
pub struct Known {
    pub entries: Vec<(String, String, String, String)>, // (property, stage, trigger tag, what)
}
impl Known {
    pub fn load(path: &Option<String>) -> Known {
        let mut entries = Vec::new();
        if let Some(p) = path {
            if let Ok(t) = std::fs::read_to_string(p) {
                if let Ok(v) = serde_json::from_str::<serde_json::Value>(&t) {
                    if let Some(fs) = v["findings"].as_array() {
                        for f in fs {
                            if let (Some(pr), Some(st), Some(tr)) = (f["property"].as_str(), f["bounded_stage"].as_str(), f["bounded_trigger"].as_str()) {
                                entries.push((pr.to_string(), st.to_string(), tr.to_string(), f["what"].as_str().unwrap_or("").to_string()));
                            }
                        }
                    }
                }
            }
        }
        Known { entries }
    }
    /// classification is "<stage>/<tag>+<tag>+…"
    pub fn matches(&self, classification: &str) -> Option<String> {
        let (stage, tags) = classification.split_once('/')?;
        let tags: Vec<&str> = tags.split('+').collect();
        for (pr, st, tr, what) in &self.entries {
            let up = format!("up:{}:{}", st, tr);
            if (st == stage && tags.iter().any(|t| t == tr)) || tags.iter().any(|t| *t == up) {
                return Some(format!("{}/{} [{}] {}", st, tr, pr, what));
            }
        }
        None
    }
}

#[derive(Default)]
pub struct Report {
    pub evaluations: usize,
    pub tuples: BTreeSet<(String, &'static str, &'static str)>,
    pub failures: BTreeMap<String, (usize, serde_json::Value)>, // classification|props -> (steps, failure json)
    pub samples: Vec<serde_json::Value>,
    pub resets_from_lag: usize,
    pub diffs: usize,
}

pub fn props_for(sc: &Scenario, f: &Failure) -> Vec<&'static str> {
    let tags: Vec<&str> = f.classification.split_once('/').map(|x| x.1).unwrap_or("").split('+').collect();
    if f.classification.starts_with("subscriber/") && (f.property == "C05") {
        // detected after the vector was dropped: the end-of-stream property
        if f.step > sc.steps.len() {
            // a subscriber that may have lagged and ends on a stale replica was also not resynchronised (C06)
            let mut v = vec!["C08"];
            if sc.cap < 64 && sc.steps.len() >= sc.cap {
                v.push("C06");
            } else {
                // what a subscriber that never fell behind receives must not depend on when it is polled (C05)
                v.push("C05");
                if tags.contains(&"Tx") {
                    v.push("C07");
                }
            }
            return v;
        }
        // C06 speaks about every capacity and every polling pattern; C05 only about subscribers that cannot have lagged
        let mut v = vec!["C06"];
        if sc.cap >= 64 || sc.steps.len() < sc.cap {
            v.push("C05");
        }
        if tags.contains(&"Tx") {
            v.push("C07");
        }
        return v;
    }
    let mut v = vec![f.property];
    for a in &f.also {
        if !v.contains(a) {
            v.push(a);
        }
    }
    v
}

fn run_all(scs: Vec<Scenario>, known: &Known, rep: &Mutex<Report>) {
    let idx = AtomicUsize::new(0);
    let n = scs.len();
    let threads = std::thread::available_parallelism().map(|x| x.get()).unwrap_or(4).min(16);
    std::thread::scope(|s| {
        for _ in 0..threads {
            s.spawn(|| {
                let mut local = Report::default();
                loop {
                    let i = idx.fetch_add(1, Ordering::Relaxed);
                    if i >= n {
                        break;
                    }
                    let sc = &scs[i];
                    let out = std::panic::catch_unwind(std::panic::AssertUnwindSafe(|| run(sc)));
                    local.evaluations += 1;
                    match out {
                        Ok(o) => {
                            local.diffs += o.stats.diffs_emitted;
                            local.resets_from_lag += o.stats.resets_from_lag;
                            for t in o.stats.tuples {
                                local.tuples.insert(t);
                            }
                            if let Some(f) = o.failure {
                                let props = props_for(sc, &f);
                                let stage = f.classification.split('/').next().unwrap_or("").to_string();
                                let key = format!("{}|{}|{}|{}", stage, f.what.split(':').next().unwrap_or(""), props.join(","), known.matches(&f.classification).is_some());
                                let steps = sc.steps.len();
                                let kn = known.matches(&f.classification);
                                let j = serde_json::json!({
                                    "properties": props, "property": props[0], "classification": f.classification, "what": f.what, "step": f.step,
                                    "expected": f.expected, "observed": f.observed, "input": sc.to_json(), "known": kn,
                                });
                                let e = local.failures.entry(key).or_insert((usize::MAX, serde_json::Value::Null));
                                if steps < e.0 {
                                    *e = (steps, j);
                                }
                            } else if local.samples.len() < 2 && i % 997 == 3 {
                                local.samples.push(serde_json::json!({"scenario": sc.to_json(), "emitted_by_last_stage": o.final_log}));
                            }
                        }
                        Err(p) => {
                            let msg = p.downcast_ref::<String>().cloned().or_else(|| p.downcast_ref::<&str>().map(|s| s.to_string())).unwrap_or_default();
                            let stage = sc.stages.last().map(|s| s.name()).unwrap_or("subscriber");
                            let mut kinds: Vec<&str> = Vec::new();
                            for (o, _) in &sc.steps {
                                o.flat_kinds(&mut kinds);
                            }
                            kinds.sort();
                            kinds.dedup();
                            let classification = format!("{}/{}", stage, kinds.join("+"));
                            let prop = prop_of(sc.stages.last().unwrap_or(&Stage::Identity));
                            let mut pprops = vec![prop];
                            // a panic in the batched flavour of a history whose plain twin runs through is also a C13 matter
                            if sc.batched && sc.cap >= 16 && !sc.stages.iter().any(|s| s.is_dynamic()) {
                                let twin = Scenario { batched: false, ..sc.clone() };
                                if let Ok(o2) = std::panic::catch_unwind(std::panic::AssertUnwindSafe(|| run(&twin))) {
                                    if o2.failure.is_none() && prop != "C13" {
                                        pprops.push("C13");
                                    }
                                }
                            }
                            let kn = known.matches(&classification);
                            let j = serde_json::json!({
                                "properties": pprops, "property": prop, "classification": classification, "what": format!("the library panicked: {}", msg), "step": null,
                                "expected": "no panic", "observed": msg, "input": sc.to_json(), "known": kn,
                            });
                            let key = format!("panic|{}", classification);
                            let e = local.failures.entry(key).or_insert((usize::MAX, serde_json::Value::Null));
                            if sc.steps.len() < e.0 {
                                *e = (sc.steps.len(), j);
                            }
                        }
                    }
                }
                let mut g = rep.lock().unwrap();
                g.evaluations += local.evaluations;
                g.diffs += local.diffs;
                g.resets_from_lag += local.resets_from_lag;
                g.tuples.extend(local.tuples);
                for (k, v) in local.failures {
                    let e = g.failures.entry(k).or_insert((usize::MAX, serde_json::Value::Null));
                    if v.0 < e.0 {
                        *e = v;
                    }
                }
                if g.samples.len() < 3 {
                    g.samples.extend(local.samples);
                }
            });
        }
    });
}

// ------------------------------------------------------------------ enumeration
fn poll_patterns(depth: usize, full: bool) -> Vec<Vec<PollMode>> {
    if !full {
        return vec![vec![PollMode::Drain; depth]];
    }
    let modes = [PollMode::Drain, PollMode::One, PollMode::None];
    let mut out = vec![vec![]];
    for _ in 0..depth {
        let mut n = Vec::new();
        for p in &out {
            for m in modes {
                let mut q: Vec<PollMode> = p.clone();
                q.push(m);
                n.push(q);
            }
        }
        out = n;
    }
    out
}

pub struct EnumCfg {
    pub depth: usize,
    pub full_patterns: bool,
    pub with_tx: bool,
    pub tx_ends: Vec<TxEnd>,
    pub param_values: Vec<usize>,
    pub close_param: bool,
    /// lengths of the transactions offered as ops (2 = all pairs of the reduced op set; others from a tiny op set)
    pub tx_lens: Vec<usize>,
}

/// all op sequences of exactly `depth` steps from `model`, ops depending on the current length
fn enum_ops(model: &Model, stages: &[Stage], cfg: &EnumCfg, depth: usize, tx_budget: usize, cur: &mut Vec<Op>, out: &mut Vec<Vec<Op>>) {
    if depth == 0 {
        out.push(cur.clone());
        return;
    }
    let mut ops = prim_ops(model.v.len());
    if cfg.with_tx && tx_budget > 0 {
        for l in &cfg.tx_lens {
            if *l == 2 {
                ops.extend(tx2_ops(model, &cfg.tx_ends));
            } else {
                ops.extend(txn_ops(model, *l, &cfg.tx_ends));
            }
        }
    }
    for (si, st) in stages.iter().enumerate() {
        if st.is_dynamic() {
            for v in &cfg.param_values {
                ops.push(Op::SetParam(si, *v));
            }
            if cfg.close_param {
                ops.push(Op::CloseParam(si));
            }
        }
    }
    for o in ops {
        let mut m = model.clone();
        if !m.apply(&o) {
            continue;
        }
        cur.push(o);
        let is_tx = matches!(cur.last(), Some(Op::Tx(..)));
        enum_ops(&m, stages, cfg, depth - 1, if is_tx { tx_budget - 1 } else { tx_budget }, cur, out);
        cur.pop();
    }
}

fn scenarios_for(stages: &[Stage], initials: &[usize], caps: &[usize], flavours: &[bool], cfg: &EnumCfg, out: &mut Vec<Scenario>) {
    let pats = poll_patterns(cfg.depth, cfg.full_patterns);
    for &init in initials {
        let model = Model::new(init);
        let mut seqs = Vec::new();
        enum_ops(&model, stages, cfg, cfg.depth, 1, &mut Vec::new(), &mut seqs);
        for seq in &seqs {
            for pat in &pats {
                for &cap in caps {
                    for &b in flavours {
                        out.push(Scenario { cap, initial: init, stages: stages.to_vec(), steps: seq.iter().cloned().zip(pat.iter().cloned()).collect(), batched: b, drop_at_end: true, final_drain: true, abandon_at: None });
                        if pat.last() == Some(&PollMode::None) {
                            out.push(Scenario { cap, initial: init, stages: stages.to_vec(), steps: seq.iter().cloned().zip(pat.iter().cloned()).collect(), batched: b, drop_at_end: true, final_drain: false, abandon_at: None });
                        }
                    }
                }
            }
        }
    }
}

/// pseudo-random long histories (thorough tier), seeded
fn random_scenarios(stages: &[Stage], n: usize, len: usize, seed: u64, cfg: &EnumCfg, out: &mut Vec<Scenario>) {
    let mut s = seed.wrapping_mul(0x9E3779B97F4A7C15).wrapping_add(0xD1B54A32D192ED03) | 1;
    let mut next = move || {
        s ^= s << 13;
        s ^= s >> 7;
        s ^= s << 17;
        s
    };
    for _ in 0..n {
        let init = (next() % 5) as usize;
        let mut m = Model::new(init);
        let mut steps = Vec::new();
        for _ in 0..len {
            let mut ops = prim_ops(m.v.len().min(6));
            if cfg.with_tx && next() % 4 == 0 {
                ops = tx2_ops(&m, &cfg.tx_ends);
            }
            for (si, st) in stages.iter().enumerate() {
                if st.is_dynamic() && next() % 3 == 0 {
                    ops.push(Op::SetParam(si, (next() % 6) as usize));
                }
            }
            if ops.is_empty() {
                continue;
            }
            let o = ops[(next() % ops.len() as u64) as usize].clone();
            if !m.clone().apply(&o) {
                continue;
            }
            m.apply(&o);
            let pm = match next() % 4 {
                0 => PollMode::None,
                1 => PollMode::One,
                _ => PollMode::Drain,
            };
            steps.push((o, pm));
        }
        let cap = [1usize, 2, 3, 16][(next() % 4) as usize];
        out.push(Scenario { cap, initial: init, stages: stages.to_vec(), steps, batched: next() % 2 == 0, drop_at_end: true, final_drain: true, abandon_at: None });
    }
}

fn hts_stages(quick: bool) -> Vec<Stage> {
    let lims: Vec<usize> = if quick { vec![0, 1, 2, 4] } else { vec![0, 1, 2, 3, 4, 5] };
    let mut v = Vec::new();
    for &l in &lims {
        v.push(Stage::Head(l));
        v.push(Stage::Tail(l));
        v.push(Stage::Skip(l));
    }
    for &l in &[0usize, 2, 4] {
        v.push(Stage::HeadDynInit(l));
        v.push(Stage::TailDynInit(l));
        v.push(Stage::SkipDynInit(l));
    }
    v.push(Stage::HeadDyn);
    v.push(Stage::TailDyn);
    v.push(Stage::SkipDyn);
    v
}
fn filter_stages() -> Vec<Stage> {
    let mut v = Vec::new();
    for b in 0..8u8 {
        v.push(Stage::Filter(b));
        v.push(Stage::FilterMap(b));
    }
    v
}
fn sort_stages() -> Vec<Stage> {
    let mut v = vec![Stage::Sort];
    for t in 0..KEY_TABLES.len() as u8 {
        v.push(Stage::SortBy(t));
        v.push(Stage::SortByKey(t));
    }
    v
}
fn chain_stage_pool() -> Vec<Stage> {
    vec![
        Stage::Head(2),
        Stage::HeadDyn,
        Stage::HeadDynInit(1),
        Stage::Tail(2),
        Stage::TailDyn,
        Stage::TailDynInit(1),
        Stage::Skip(1),
        Stage::SkipDyn,
        Stage::SkipDynInit(1),
        Stage::Filter(0b101),
        Stage::FilterMap(0b011),
        Stage::Sort,
        Stage::SortBy(1),
        Stage::SortByKey(2),
    ]
}

fn cfg(depth: usize, full: bool, tx: Option<Vec<TxEnd>>, params: &[usize], close: bool) -> EnumCfg {
    EnumCfg { depth, full_patterns: full, with_tx: tx.is_some(), tx_ends: tx.unwrap_or_default(), param_values: params.to_vec(), close_param: close, tx_lens: vec![2] }
}

/// the standard scenario families for one stage configuration (single adapter)
fn single_stage_family(st: &Stage, quick: bool, seed: u64, out: &mut Vec<Scenario>) {
    let dynamic = st.is_dynamic();
    let ends_all = vec![TxEnd::Commit, TxEnd::Rollback, TxEnd::Drop, TxEnd::RollbackThenCommit];
    let chain = [st.clone()];
    // (a) every op sequence of depth 3 (thorough: 4 for static parameters), drained after every op
    let d = if quick || dynamic { 3 } else { 4 };
    scenarios_for(&chain, &[0, 3], &[16], &[false, true], &cfg(d, false, None, &[0, 1, 3, 5], true), out);
    // (b) depth 2 under all 9 poll patterns (drain / take one / none), with lag (capacity 1) and without
    scenarios_for(&chain, &[3], &[1, 16], &[false, true], &cfg(2, true, None, &[0, 1, 3, 5], true), out);
    // (c) one two-op transaction, alone and before/after one primitive op
    scenarios_for(&chain, &[0, 3], &[16], &[false, true], &cfg(1, false, Some(vec![TxEnd::Commit]), &[], false), out);
    scenarios_for(&chain, &[3], &[16], &[true], &cfg(2, false, Some(vec![TxEnd::Commit]), &[2], false), out);
    let mut c3 = cfg(1, false, Some(vec![TxEnd::Commit]), &[], false);
    c3.tx_lens = vec![3];
    scenarios_for(&chain, &[0, 2], &[16], &[false, true], &c3, out);
    // (d) lag, resynchronise, carry on: two unpolled ops at capacity 1 (Reset from lag), then a third op after the drain
    {
        let c = cfg(3, false, None, &[], false);
        let mut seqs = Vec::new();
        enum_ops(&Model::new(3), &chain, &c, 3, 0, &mut Vec::new(), &mut seqs);
        for seq in &seqs {
            for pat in [[PollMode::None, PollMode::Drain, PollMode::Drain], [PollMode::None, PollMode::One, PollMode::Drain]] {
                for b in [false, true] {
                    out.push(Scenario { cap: 1, initial: 3, stages: chain.to_vec(), steps: seq.iter().cloned().zip(pat.iter().cloned()).collect(), batched: b, drop_at_end: true, final_drain: true, abandon_at: None });
                }
            }
        }
    }
    // (e) bursts: many updates of one kind between two polls (no lag: capacity 64), e.g. 20 updates that produce nothing
    //     for this stage; then a drain, one more update, a drain — every poll must still end registered
    for burst in [Op::PushBack, Op::Append(0), Op::PushFront, Op::Set(0)] {
        for n in [17usize, 33] {
            for b in [false, true] {
                let mut steps: Vec<(Op, PollMode)> = (0..n).map(|_| (burst.clone(), PollMode::None)).collect();
                steps.push((burst.clone(), PollMode::Drain));
                steps.push((Op::PushBack, PollMode::Drain));
                steps.push((burst.clone(), PollMode::One));
                out.push(Scenario { cap: 64, initial: 3, stages: chain.to_vec(), steps, batched: b, drop_at_end: true, final_drain: true, abandon_at: None });
            }
        }
    }
    if !quick {
        scenarios_for(&chain, &[1, 2], &[16], &[false, true], &cfg(3, false, None, &[0, 2, 4], true), out);
        scenarios_for(&chain, &[2], &[2], &[false, true], &cfg(3, true, None, &[0, 1, 3], false), out);
        random_scenarios(&chain, 600, 25, seed ^ (out.len() as u64), &cfg(0, false, Some(ends_all), &[0, 1, 2, 3, 5], false), out);
    }
}

fn build(check: &str, tier: &str, seed: u64) -> (Vec<Scenario>, String) {
    let quick = tier != "thorough";
    let mut out = Vec::new();
    let ends_all = vec![TxEnd::Commit, TxEnd::Rollback, TxEnd::Drop, TxEnd::RollbackThenCommit];
    let fam = "per stage configuration: (a) every op sequence of depth 3 from initial lengths {0,3} drained after every op; (b) depth 2 from length 3 under all 9 poll patterns (drain/take-one/none per step) with capacities {1,16} (Reset from lag), with and without a poll between the last op and the drop; (c) two-op transactions alone and next to one primitive op; (d) every op sequence of depth 3 from length 3 at capacity 1 with the first op unpolled (Reset from lag, then one more op); (e) bursts of 18 and 34 updates of one kind (push_back, empty append, push_front, set) between two polls at capacity 64; both stream flavours; the source is dropped at the end";
    let thor = "; thorough adds depth 4 (static parameters), depth 3 from lengths {1,2}, depth 3 under all 27 poll patterns, and 600 seeded random histories of length 25 per configuration (not exhaustive)";
    let scope;
    match check {
        // Head / Tail / Skip alone: C09, C15 (+ the C13, C14 clauses checked in the same runs)
        "hts" => {
            for st in hts_stages(quick) {
                single_stage_family(&st, quick, seed, &mut out);
            }
            scope = format!("Head/Tail/Skip with static limits {}, dynamic with initial value {{0,2,4}} and purely dynamic (parameter changes to {{0,1,3,5}} and closing of the parameter stream are ops); {}{}", if quick { "{0,1,2,4}" } else { "{0..5}" }, fam, if quick { "" } else { thor });
        }
        "filter" => {
            for st in filter_stages() {
                single_stage_family(&st, quick, seed, &mut out);
            }
            scope = format!("Filter and FilterMap under all 8 pass/fail tables over 3 item classes; {}{}", fam, if quick { "" } else { thor });
        }
        "sort" => {
            for st in sort_stages() {
                single_stage_family(&st, quick, seed, &mut out);
            }
            scope = format!("Sort, SortBy, SortByKey with 4 key tables (with and without ties); {}{}", fam, if quick { "" } else { thor });
        }
        "chains" => {
            let pool = chain_stage_pool();
            for a in &pool {
                for b in &pool {
                    let chain = vec![a.clone(), b.clone()];
                    scenarios_for(&chain, &[0, 3], &[16], &[false, true], &cfg(2, false, None, &[0, 1, 3], false), &mut out);
                    scenarios_for(&chain, &[3], &[16], &[false], &cfg(1, false, Some(vec![TxEnd::Commit]), &[], false), &mut out);
                    if chain.iter().any(|s| s.is_dynamic()) {
                        // a consumer that takes only one item before the next operation (buffered second diff vs. parameter change)
                        let mut seqs = Vec::new();
                        let c = cfg(2, false, None, &[0, 1, 3], false);
                        enum_ops(&Model::new(3), &chain, &c, 2, 0, &mut Vec::new(), &mut seqs);
                        for seq in &seqs {
                            for pat in [[PollMode::One, PollMode::Drain], [PollMode::One, PollMode::One], [PollMode::None, PollMode::One]] {
                                out.push(Scenario { cap: 16, initial: 3, stages: chain.clone(), steps: seq.iter().cloned().zip(pat.iter().cloned()).collect(), batched: false, drop_at_end: true, final_drain: true, abandon_at: None });
                            }
                        }
                    }
                    if chain.iter().any(|s| s.is_dynamic()) {
                        // a longer source and parameter jumps of 4 and more (a stage may emit 4+ diffs for one change)
                        scenarios_for(&chain, &[6], &[16], &[false, true], &cfg(2, false, None, &[1, 5], false), &mut out);
                    }
                    if !quick {
                        scenarios_for(&chain, &[3], &[16], &[false], &cfg(3, false, None, &[0, 2], false), &mut out);
                        scenarios_for(&chain, &[3], &[1, 16], &[false, true], &cfg(2, true, None, &[0, 2], false), &mut out);
                        random_scenarios(&chain, 60, 20, seed ^ (out.len() as u64), &cfg(0, false, Some(vec![TxEnd::Commit]), &[0, 1, 2, 3], false), &mut out);
                    }
                    for c in &pool {
                        let chain = vec![a.clone(), b.clone(), c.clone()];
                        scenarios_for(&chain, &[3], &[16], &[false], &cfg(1, false, None, &[0, 2], false), &mut out);
                        if !quick {
                            scenarios_for(&chain, &[3], &[16], &[false, true], &cfg(2, false, None, &[0, 2], false), &mut out);
                        }
                    }
                }
            }
            scope = format!("all chains of 2 and of 3 adapters over a pool of 14 stage kinds (head/tail/skip: static, purely dynamic, dynamic with initial value; filter; filter_map; sort; sort_by; sort_by_key) with a tap after each stage, every stage checked against the correct view of the stage below; chains of 2: every op sequence of depth 2 from lengths {{0,3}} (and from length 6 with parameter values {{1,5}} for chains with a dynamic stage), both flavours, plus one transaction{}; chains of 3: depth {} from length 3", if quick { "" } else { " (+ depth 3, depth 2 under all poll patterns with lag, seeded random)" }, if quick { 1 } else { 2 });
        }
        // plain subscriber: C05 / C06 / C07 / C08
        "sub" => {
            let st = [Stage::Identity];
            scenarios_for(&st, &[0, 1, 3], &[16], &[false, true], &cfg(if quick { 3 } else { 4 }, false, None, &[], false), &mut out);
            scenarios_for(&st, &[0, 2], &[1, 2, 3, 16], &[false, true], &cfg(1, true, Some(ends_all.clone()), &[], false), &mut out);
            scenarios_for(&st, &[2], &[1, 16], &[false, true], &cfg(2, true, Some(vec![TxEnd::Commit, TxEnd::Rollback]), &[], false), &mut out);
            scenarios_for(&st, &[2], &[2, 3], &[false, true], &cfg(2, false, Some(ends_all.clone()), &[], false), &mut out);
            scenarios_for(&st, &[2], &[1, 2, 3, 5], &[false, true], &cfg(3, true, None, &[], false), &mut out);
            // transactions of 1, 3 and 4 ops (tiny op set), every ending, under the three poll modes
            let mut c = cfg(1, true, Some(ends_all.clone()), &[], false);
            c.tx_lens = vec![1, 3, 4];
            scenarios_for(&st, &[0, 2], &[2, 16], &[false, true], &c, &mut out);
            if !quick {
                scenarios_for(&st, &[0, 2], &[1, 2, 3, 16], &[false, true], &cfg(2, true, Some(ends_all.clone()), &[], false), &mut out);
                random_scenarios(&st, 20000, 30, seed, &cfg(0, false, Some(ends_all.clone()), &[], false), &mut out);
            }
            scope = format!("plain and batched subscriber of an ObservableVector; every op sequence of depth {} drained after every op (lengths {{0,1,3}}); one transaction of 1-4 ops with every ending (commit / rollback / drop / rollback-then-redo-and-commit) under all poll patterns and capacities {{1,2,3,16}}; depth 2 with one transaction under all 9 poll patterns (capacities {{1,16}}) ; depth 3 under all 27 poll patterns with capacities {{1,2,3,5}}; the vector is dropped at the end, with and without a poll between the last op and the drop{}", if quick { 3 } else { 4 }, if quick { "" } else { "; thorough adds 20000 seeded random histories of length 30 (not exhaustive)" });
        }
        // C20: drop accounting — streams abandoned mid-way, transactions, lag
        "drops" => {
            let stages: Vec<Vec<Stage>> = vec![vec![Stage::Identity], vec![Stage::Filter(5)], vec![Stage::FilterMap(3)], vec![Stage::Head(2)], vec![Stage::Tail(2)], vec![Stage::Skip(1)], vec![Stage::Sort], vec![Stage::SortBy(2)], vec![Stage::TailDynInit(1)], vec![Stage::Head(2), Stage::Filter(5)], vec![Stage::Sort, Stage::Tail(2)]];
            for chain in &stages {
                let mut base = Vec::new();
                scenarios_for(chain, &[2], &[1, 16], &[false, true], &cfg(2, true, None, &[0, 3], false), &mut base);
                let mut c = cfg(1, true, Some(ends_all.clone()), &[], false);
                c.tx_lens = vec![2, 3];
                scenarios_for(chain, &[0, 2], &[16], &[false, true], &c, &mut base);
                // a stream dropped while a transaction is open; a multi-diff batch taken only partly, then more updates
                let mut cd = cfg(1, true, Some(vec![TxEnd::DropStreamsThenCommit]), &[], false);
                cd.tx_lens = vec![1, 2];
                scenarios_for(chain, &[0, 2], &[16], &[false, true], &cd, &mut base);
                {
                    let m0 = Model::new(2);
                    for t in txn_ops(&m0, 3, &[TxEnd::Commit]) {
                        let mut m1 = m0.clone();
                        m1.apply(&t);
                        for o in prim_ops(m1.v.len()) {
                            if !m1.clone().apply(&o) {
                                continue;
                            }
                            for b in [false, true] {
                                for (p0, p1) in [(PollMode::One, PollMode::None), (PollMode::One, PollMode::One)] {
                                    base.push(Scenario { cap: 16, initial: 2, stages: chain.clone(), steps: vec![(t.clone(), p0), (o.clone(), p1)], batched: b, drop_at_end: true, final_drain: false, abandon_at: None });
                                }
                            }
                        }
                    }
                }
                if !quick {
                    scenarios_for(chain, &[2], &[2, 16], &[false, true], &cfg(3, true, None, &[0, 3], false), &mut base);
                    let mut c2 = cfg(2, true, Some(vec![TxEnd::Commit, TxEnd::Drop]), &[], false);
                    c2.tx_lens = vec![2];
                    scenarios_for(chain, &[2], &[16], &[false], &c2, &mut base);
                }
                for sc in base {
                    for ab in [None, Some(0usize), Some(1usize)] {
                        if let Some(k) = ab {
                            if k >= sc.steps.len() {
                                continue;
                            }
                        }
                        let mut s2 = sc.clone();
                        s2.abandon_at = ab;
                        out.push(s2);
                    }
                }
            }
            scope = "drop accounting with an instrumented item type (every construction, clone and drop counted): plain and batched subscriber and 10 adapter set-ups (filter, filter_map, head, tail, skip, sort, sort_by, dynamic tail, head+filter, sort+tail); every op sequence of depth 2 and single two- and three-op transactions with every ending, under all poll patterns (drain / take one / none), capacities {1,16}; the stream is either kept to the end or dropped right after step 0 / step 1 without draining (e.g. in the middle of a multi-diff batch) while the source keeps changing; at the end everything is dropped and no item may be alive".to_string();
        }
        _ => {
            scope = String::new();
        }
    }
    (out, scope)
}


// ------------------------------------------------------------------ eyeball value observables (C01, C02, C03, C16, C19)
fn obs_enum(m: &obs::Model, depth: usize, cur: &mut Vec<obs::ObsOp>, out: &mut Vec<Vec<obs::ObsOp>>, maxh: (usize, usize, usize)) {
    if depth == 0 {
        out.push(cur.clone());
        return;
    }
    for op in obs::enabled(m, maxh.0, maxh.1, maxh.2) {
        let mut m2 = m.clone();
        obs::model_step(&mut m2, &op);
        cur.push(op);
        obs_enum(&m2, depth - 1, cur, out, maxh);
        cur.pop();
    }
}

fn run_obs(check: &str, tier: &str, seed: u64, known: &Known) -> serde_json::Value {
    use obs::*;
    let quick = tier != "thorough";
    let is_async = check.starts_with("obs-async");
    let follow = check.ends_with("-counts");
    let t0 = std::time::Instant::now();
    // histories: (unique start?, ops)
    let mut hist: Vec<(bool, Vec<ObsOp>)> = Vec::new();
    let prefixes: Vec<(bool, Vec<ObsOp>)> = vec![
        (false, vec![]),
        (true, vec![]),
        (false, vec![ObsOp::Subscribe, ObsOp::Poll(0)]),
        (false, vec![ObsOp::CloneOwner, ObsOp::Subscribe, ObsOp::Downgrade]),
        (false, vec![ObsOp::Subscribe, ObsOp::Downgrade]),
        (true, vec![ObsOp::Subscribe, ObsOp::Poll(0), ObsOp::IntoShared]),
        (false, vec![ObsOp::SubscribeReset, ObsOp::Subscribe, ObsOp::Poll(1), ObsOp::PollOtherWaker(1)]),
        // an upgraded weak reference is an owner like any other: what happens after one of the two is dropped
        (false, vec![ObsOp::Subscribe, ObsOp::Downgrade, ObsOp::Upgrade(0)]),
    ];
    let depth = if quick { 4 } else { 5 };
    for (uniq, pre) in &prefixes {
        let mut m = Model::new(*uniq);
        for o in pre {
            model_step(&mut m, o);
        }
        let d = if pre.is_empty() { depth } else { depth - 1 };
        let mut seqs = Vec::new();
        obs_enum(&m, d, &mut pre.clone(), &mut seqs, (3, 3, 2));
        for s in seqs {
            hist.push((*uniq, s));
        }
    }
    if !quick {
        // seeded random long histories
        let mut s = seed.wrapping_mul(0x9E3779B97F4A7C15) | 1;
        let mut next = move || {
            s ^= s << 13;
            s ^= s >> 7;
            s ^= s << 17;
            s
        };
        for _ in 0..200_000 {
            let uniq = next() % 3 == 0;
            let mut m = Model::new(uniq);
            let mut ops = Vec::new();
            for _ in 0..14 {
                let en = enabled(&m, 3, 3, 2);
                if en.is_empty() {
                    break;
                }
                let o = en[(next() % en.len() as u64) as usize].clone();
                model_step(&mut m, &o);
                ops.push(o);
            }
            hist.push((uniq, ops));
        }
    }
    let n = hist.len();
    let idx = AtomicUsize::new(0);
    let failures: Mutex<BTreeMap<String, (usize, serde_json::Value)>> = Mutex::new(BTreeMap::new());
    let kinds: Mutex<BTreeSet<(String, &'static str)>> = Mutex::new(BTreeSet::new());
    let threads = std::thread::available_parallelism().map(|x| x.get()).unwrap_or(4).min(16);
    std::thread::scope(|sc| {
        for _ in 0..threads {
            sc.spawn(|| {
                let mut lk: BTreeSet<(String, &'static str)> = BTreeSet::new();
                let mut lf: BTreeMap<String, (usize, serde_json::Value)> = BTreeMap::new();
                loop {
                    let i = idx.fetch_add(1, Ordering::Relaxed);
                    if i >= n {
                        break;
                    }
                    let (uniq, ops) = &hist[i];
                    let r = std::panic::catch_unwind(std::panic::AssertUnwindSafe(|| if is_async { run_history::<AsyncSys>(*uniq, ops, follow) } else { run_history::<SyncSys>(*uniq, ops, follow) }));
                    let mut prevk = "start";
                    for o in ops {
                        lk.insert((prevk.to_string(), o.kind()));
                        prevk = o.kind();
                    }
                    let f = match r {
                        Ok(None) => continue,
                        Ok(Some(f)) => f,
                        Err(p) => {
                            let msg = p.downcast_ref::<String>().cloned().or_else(|| p.downcast_ref::<&str>().map(|s| s.to_string())).unwrap_or_default();
                            ObsFailure { property: "C01+C02+C03", classification: format!("{}/panic", if is_async { "async-lock" } else { "sync" }), what: format!("the library panicked: {}", msg), step: 0, expected: "no panic".into(), observed: msg }
                        }
                    };
                    let mut props: Vec<&str> = f.property.split('+').collect();
                    if is_async {
                        props.push("C16");
                    }
                    let kn = known.matches(&f.classification);
                    let key = format!("{}|{}|{}", f.classification, f.property, f.what);
                    let j = serde_json::json!({
                        "properties": props, "property": props[0], "classification": f.classification, "what": f.what, "step": f.step,
                        "expected": f.expected, "observed": f.observed, "known": kn,
                        "input": {"kind": "obs", "flavour": if is_async { "async-lock" } else { "sync" }, "unique_start": uniq, "follow_upgrade": follow, "ops": ops.iter().map(|o| o.to_text()).collect::<Vec<_>>()},
                    });
                    let e = lf.entry(key).or_insert((usize::MAX, serde_json::Value::Null));
                    if ops.len() < e.0 {
                        *e = (ops.len(), j);
                    }
                }
                kinds.lock().unwrap().extend(lk);
                let mut g = failures.lock().unwrap();
                for (k, v) in lf {
                    let e = g.entry(k).or_insert((usize::MAX, serde_json::Value::Null));
                    if v.0 < e.0 {
                        *e = v;
                    }
                }
            });
        }
    });
    let mut fl = failures.into_inner().unwrap();
    // the owner dropped by an unwinding panic (4 fixed cases per flavour)
    for uniq in [false, true] {
        for polled in [false, true] {
            if let Ok(Some(f)) = std::panic::catch_unwind(|| run_unwind_drop(is_async, uniq, polled)) {
                let mut props: Vec<&str> = f.property.split('+').collect();
                if is_async {
                    props.push("C16");
                }
                let key = format!("{}|{}|{}", f.classification, f.property, f.what);
                let j = serde_json::json!({"properties": props, "property": props[0], "classification": f.classification, "what": f.what, "step": f.step, "expected": f.expected, "observed": f.observed, "known": known.matches(&f.classification),
                    "input": {"kind": "obs-unwind", "flavour": if is_async { "async-lock" } else { "sync" }, "unique_start": uniq, "polled_before": polled}});
                fl.entry(key).or_insert((0, j));
            }
        }
    }
    let mut fv: Vec<&(usize, serde_json::Value)> = fl.values().collect();
    fv.sort_by_key(|x| x.0);
    let sample: Vec<String> = hist.get(n / 2).map(|h| h.1.iter().map(|o| o.to_text()).collect()).unwrap_or_default();
    serde_json::json!({
        "check": check, "tier": tier, "seed": seed,
        "scope": format!("{} flavour; handle histories over: Set/SetIfNotEq/SetIfHashNotEq (keys {{0,1}}, every stored value tagged uniquely, equality and hash look at the key only), Update, UpdateIf(true/false), Take, write-guard setters, owner get/read, clone/drop/downgrade/upgrade/into_shared, subscribe/subscribe_reset, and per subscriber poll (two different wakers), next_now, next_ref_now, get, read, reset, clone, clone_reset, drop; at most 3 owners, 3 subscribers, 2 weak references; plus the owner dropped by an unwinding panic (unique / shared, subscriber pending or not); every sequence of depth {} from 2 fresh starts (shared, unique) and depth {} after 6 set-up prefixes (subscriber parked; two owners + weak; weak; unique turned shared; two subscribers with two wakers; an upgraded weak reference next to the original){}", if is_async { "async-lock" } else { "sync" }, depth, depth - 1, if quick { "" } else { "; plus 200000 seeded random histories of length 14 (not exhaustive)" }),
        "evaluations": n,
        "distinct_nontrivial": kinds.into_inner().unwrap().len(),
        "rule": "every history is executed on the real crate and on a reference model; results, readiness, wake-ups and counts are compared after every operation; non-trivial distinct cases = distinct (previous op kind, op kind) pairs executed",
        "exhaustive": quick,
        "samples": [{"unique_start": hist.get(n / 2).map(|h| h.0), "ops": sample}],
        "failures": fv.iter().take(40).map(|x| x.1.clone()).collect::<Vec<_>>(),
        "elapsed_s": t0.elapsed().as_secs_f64(),
    })
}

fn held_scenarios(quick: bool) -> Vec<obs::HeldScenario> {
    use obs::*;
    let qops = vec![QOp::Set(0), QOp::Set(1), QOp::SetIfNotEq(0), QOp::SetIfNotEq(1), QOp::SetIfHashNotEq(1), QOp::Update, QOp::UpdateIf(true), QOp::UpdateIf(false), QOp::Take, QOp::OwnerGet, QOp::SubNext, QOp::SubNextNow, QOp::SubGet, QOp::SubPoll];
    let mut seqs: Vec<Vec<QOp>> = vec![vec![]];
    let maxlen = if quick { 3 } else { 4 };
    let mut all: Vec<Vec<QOp>> = Vec::new();
    for _ in 0..maxlen {
        let mut n = Vec::new();
        for s in &seqs {
            for q in &qops {
                let mut t = s.clone();
                t.push(q.clone());
                n.push(t);
            }
        }
        all.extend(n.iter().cloned());
        seqs = n;
    }
    let mut out = Vec::new();
    for pre_set in [None, Some(1u8)] {
        for subscribe in [false, true] {
            for set_after in [None, Some(0u8), Some(1u8)] {
                if !subscribe && set_after.is_some() {
                    continue;
                }
                for wg in [true, false] {
                    for q in &all {
                        if !subscribe && q.iter().any(|x| matches!(x, QOp::SubNext | QOp::SubNextNow | QOp::SubGet | QOp::SubPoll)) {
                            continue;
                        }
                        out.push(HeldScenario { pre_set, subscribe, set_after_sub: set_after, write_guard: wg, queued: q.clone() });
                    }
                }
            }
        }
    }
    out
}

fn held_json(sc: &obs::HeldScenario) -> serde_json::Value {
    serde_json::json!({"kind": "obs-held", "pre_set": sc.pre_set, "subscribe": sc.subscribe, "set_after_subscribe": sc.set_after_sub, "write_guard": sc.write_guard, "queued": sc.queued.iter().map(|q| format!("{:?}", q)).collect::<Vec<_>>()})
}

fn run_obs_held(tier: &str, known: &Known) -> serde_json::Value {
    let t0 = std::time::Instant::now();
    let scs = held_scenarios(tier != "thorough");
    let mut failures: BTreeMap<String, (usize, serde_json::Value)> = BTreeMap::new();
    let mut kinds: BTreeSet<String> = BTreeSet::new();
    for sc in &scs {
        for w in sc.queued.windows(2) {
            kinds.insert(format!("{}:{:?}>{:?}", sc.write_guard, w[0], w[1]));
        }
        let r = std::panic::catch_unwind(std::panic::AssertUnwindSafe(|| obs::run_held(sc)));
        let f = match r {
            Ok(None) => continue,
            Ok(Some(f)) => f,
            Err(p) => {
                let msg = p.downcast_ref::<String>().cloned().or_else(|| p.downcast_ref::<&str>().map(|s| s.to_string())).unwrap_or_default();
                obs::ObsFailure { property: "C16", classification: "async-lock/held-guard:panic".into(), what: format!("panicked: {}", msg), step: 0, expected: "no panic".into(), observed: msg }
            }
        };
        let key = f.classification.clone();
        let hprops: Vec<&str> = f.property.split('+').collect();
        let j = serde_json::json!({"properties": hprops, "property": "C16", "classification": f.classification, "what": f.what, "step": 0, "expected": f.expected, "observed": f.observed, "known": known.matches(&key), "input": held_json(sc)});
        let e = failures.entry(key).or_insert((usize::MAX, serde_json::Value::Null));
        if sc.queued.len() < e.0 {
            *e = (sc.queued.len(), j);
        }
    }
    serde_json::json!({
        "check": "obs-held", "tier": tier, "seed": 0,
        "scope": format!("async-lock SharedObservable: a write guard or a read guard is held; every sequence of up to {} operations (set, set_if_not_eq, set_if_hash_not_eq, update, update_if, take, get, subscriber next/next_now/get/poll_next) is started behind it (each future polled once); then the guard is dropped and the futures are driven only when their waker fired; results, final value and the subscriber's readiness afterwards are compared with the sequential execution in queue order; a future still pending at the end must not complete when polled by hand (else its wake-up was lost), and the lock must be free again for a reader and a writer; set-ups: with/without an earlier update, with/without a subscriber, with/without an update the subscriber has not seen", if tier != "thorough" { 3 } else { 4 }),
        "evaluations": scs.len(),
        "distinct_nontrivial": kinds.len(),
        "rule": "distinct non-trivial cases = distinct (guard kind, queued op, next queued op) triples",
        "exhaustive": true,
        "samples": [held_json(&scs[scs.len() / 2])],
        "failures": failures.values().map(|x| x.1.clone()).collect::<Vec<_>>(),
        "elapsed_s": t0.elapsed().as_secs_f64(),
    })
}

fn run_obs_guard(tier: &str, known: &Known) -> serde_json::Value {
    use obs::GOp;
    let t0 = std::time::Instant::now();
    let depth = if tier != "thorough" { 3 } else { 4 };
    let all = GOp::all();
    let mut seqs: Vec<Vec<GOp>> = vec![vec![]];
    let mut frontier: Vec<Vec<GOp>> = vec![vec![]];
    for _ in 0..depth {
        let mut next = Vec::new();
        for s in &frontier {
            for o in &all {
                let mut t = s.clone();
                t.push(o.clone());
                next.push(t);
            }
        }
        seqs.extend(next.iter().cloned());
        frontier = next;
    }
    let mut failures: BTreeMap<String, (usize, serde_json::Value)> = BTreeMap::new();
    let mut kinds: BTreeSet<String> = BTreeSet::new();
    let mut evals = 0usize;
    for is_async in [false, true] {
        for ops in &seqs {
            evals += 1;
            for w in ops.windows(2) {
                kinds.insert(format!("{}:{}>{}", is_async, w[0].kind(), w[1].kind()));
            }
            let r = std::panic::catch_unwind(std::panic::AssertUnwindSafe(|| obs::run_guard_session(is_async, ops)));
            let f = match r {
                Ok(None) => continue,
                Ok(Some(f)) => f,
                Err(p) => {
                    let msg = p.downcast_ref::<String>().cloned().or_else(|| p.downcast_ref::<&str>().map(|s| s.to_string())).unwrap_or_default();
                    obs::ObsFailure { property: if is_async { "C01+C16" } else { "C01" }, classification: format!("{}/guard-session:panic", if is_async { "async-lock" } else { "sync" }), what: format!("panicked: {}", msg), step: 0, expected: "no panic".into(), observed: msg }
                }
            };
            let key = format!("{}|{}", f.classification, f.what);
            let props: Vec<&str> = f.property.split('+').collect();
            let j = serde_json::json!({"properties": props, "property": props[0], "classification": f.classification, "what": f.what, "step": 0, "expected": f.expected, "observed": f.observed, "known": known.matches(&key),
                "input": {"kind": "obs-guard", "flavour": if is_async { "async-lock" } else { "sync" }, "ops": ops.iter().map(|o| format!("{:?}", o)).collect::<Vec<_>>()}});
            let e = failures.entry(key).or_insert((usize::MAX, serde_json::Value::Null));
            if ops.len() < e.0 {
                *e = (ops.len(), j);
            }
        }
    }
    serde_json::json!({
        "check": "obs-guard", "tier": tier, "seed": 0,
        "scope": format!("one ObservableWriteGuard of a SharedObservable (sync and async-lock) with a subscriber: every sequence of up to {} operations through that one guard out of set / set_if_not_eq / set_if_hash_not_eq (keys {{0,1}}; equality and hash look at the key only), update changing only the tag, update changing the key, update_if(true/false); every result, the value seen through the guard after each operation, the stored value after the guard is dropped and the subscriber's readiness are compared with the sequential reference", depth),
        "evaluations": evals,
        "distinct_nontrivial": kinds.len(),
        "rule": "distinct non-trivial cases = distinct (flavour, operation, next operation) triples",
        "exhaustive": true,
        "samples": [{"kind": "obs-guard", "ops": seqs[seqs.len() / 2].iter().map(|o| format!("{:?}", o)).collect::<Vec<_>>()}],
        "failures": failures.values().map(|x| x.1.clone()).collect::<Vec<_>>(),
        "elapsed_s": t0.elapsed().as_secs_f64(),
    })
}

fn run_obs_race(tier: &str, known: &Known) -> serde_json::Value {
    let t0 = std::time::Instant::now();
    let rounds = if tier != "thorough" { 6000 } else { 60000 };
    let mut failures = Vec::new();
    for is_async in [false, true] {
        let bad = obs::concurrent_last_drops(is_async, rounds);
        if bad > 0 {
            let cls = format!("{}/concurrent-last-drops", if is_async { "async-lock" } else { "sync" });
            failures.push(serde_json::json!({"properties": if is_async { vec!["C03", "C02", "C16"] } else { vec!["C03", "C02"] }, "property": "C03", "classification": cls,
                "what": "the last two clones of a SharedObservable were dropped at the same moment on two threads and the pending subscriber was not woken / does not see the end of the stream",
                "step": 0, "expected": format!("0 of {} rounds", rounds), "observed": format!("{} of {} rounds", bad, rounds), "known": known.matches(&cls),
                "input": {"kind": "obs-race", "flavour": if is_async { "async-lock" } else { "sync" }, "rounds": rounds}}));
        }
    }
    serde_json::json!({
        "check": "obs-race", "tier": tier, "seed": 0,
        "scope": format!("STRESS TEST, not exhaustive, no control over the schedule: {} rounds per flavour of two threads meeting at a barrier and each dropping one of the last two clones of a SharedObservable while a subscriber is pending; the subscriber must have been woken and must see the end of the stream. A failing round is a real failing schedule; a pass decides nothing", rounds),
        "evaluations": 2 * rounds,
        "distinct_nontrivial": 2,
        "rule": "distinct non-trivial cases = lock flavours",
        "exhaustive": false,
        "samples": [],
        "failures": failures,
        "elapsed_s": t0.elapsed().as_secs_f64(),
    })
}

fn replay_obs(v: &serde_json::Value) -> i32 {
    use obs::*;
    let inp = &v["input"];
    if inp["kind"].as_str() == Some("obs-race") {
        let rounds = inp["rounds"].as_u64().unwrap_or(6000) as usize * 4;
        println!("re-running the stress test on the real crate ({} rounds): {}", rounds, inp);
        let bad = concurrent_last_drops(inp["flavour"].as_str() == Some("async-lock"), rounds);
        return if bad == 0 {
            println!("passes (no failing round this time; a stress test decides nothing when it passes)");
            0
        } else {
            println!("FAILS: {} of {} rounds: the pending subscriber was not woken / does not see the end of the stream", bad, rounds);
            1
        };
    }
    if inp["kind"].as_str() == Some("obs-unwind") {
        println!("replaying on the real crate (owner dropped by an unwinding panic): {}", inp);
        let r = std::panic::catch_unwind(|| run_unwind_drop(inp["flavour"].as_str() == Some("async-lock"), inp["unique_start"].as_bool().unwrap_or(false), inp["polled_before"].as_bool().unwrap_or(true)));
        return match r {
            Ok(None) => {
                println!("passes");
                0
            }
            Ok(Some(f)) => {
                println!("FAILS: [{}] {}\n  expected: {}\n  observed: {}", f.classification, f.what, f.expected, f.observed);
                1
            }
            Err(_) => {
                println!("FAILS: panicked");
                1
            }
        };
    }
    if inp["kind"].as_str() == Some("obs-guard") {
        let ops: Vec<GOp> = inp["ops"].as_array().unwrap().iter().map(|o| GOp::parse(o.as_str().unwrap()).expect("gop")).collect();
        let is_async = inp["flavour"].as_str() == Some("async-lock");
        println!("replaying on the real crate (one write guard): {}", inp);
        return match std::panic::catch_unwind(std::panic::AssertUnwindSafe(|| run_guard_session(is_async, &ops))) {
            Ok(None) => {
                println!("passes");
                0
            }
            Ok(Some(f)) => {
                println!("FAILS: [{}] {}\n  expected: {}\n  observed: {}", f.classification, f.what, f.expected, f.observed);
                1
            }
            Err(_) => {
                println!("FAILS: panicked");
                1
            }
        };
    }
    if inp["kind"].as_str() == Some("obs-held") {
        let sc = HeldScenario {
            pre_set: inp["pre_set"].as_u64().map(|x| x as u8),
            subscribe: inp["subscribe"].as_bool().unwrap_or(false),
            set_after_sub: inp["set_after_subscribe"].as_u64().map(|x| x as u8),
            write_guard: inp["write_guard"].as_bool().unwrap_or(true),
            queued: inp["queued"].as_array().unwrap().iter().map(|q| QOp::parse(q.as_str().unwrap()).expect("qop")).collect(),
        };
        println!("replaying on the real crate (async-lock, held guard): {}", inp);
        return match std::panic::catch_unwind(std::panic::AssertUnwindSafe(|| run_held(&sc))) {
            Ok(None) => {
                println!("passes");
                0
            }
            Ok(Some(f)) => {
                println!("FAILS: [{}] {}\n  expected: {}\n  observed: {}", f.classification, f.what, f.expected, f.observed);
                1
            }
            Err(_) => {
                println!("FAILS: panicked");
                1
            }
        };
    }
    let ops: Vec<ObsOp> = inp["ops"].as_array().unwrap().iter().map(|o| ObsOp::parse(o.as_str().unwrap()).expect("op")).collect();
    let uniq = inp["unique_start"].as_bool().unwrap_or(false);
    let is_async = inp["flavour"].as_str() == Some("async-lock");
    println!("replaying on the real crate ({}): {:?}", if is_async { "async-lock" } else { "sync" }, ops.iter().map(|o| o.to_text()).collect::<Vec<_>>());
    let r = std::panic::catch_unwind(std::panic::AssertUnwindSafe(|| if is_async { run_history::<AsyncSys>(uniq, &ops, inp["follow_upgrade"].as_bool().unwrap_or(false)) } else { run_history::<SyncSys>(uniq, &ops, inp["follow_upgrade"].as_bool().unwrap_or(false)) }));
    match r {
        Ok(None) => {
            println!("passes (no divergence from the reference model on the current tree)");
            0
        }
        Ok(Some(f)) => {
            println!("FAILS: [{}] {} at step {}\n  expected: {}\n  observed: {}", f.classification, f.what, f.step, f.expected, f.observed);
            1
        }
        Err(_) => {
            println!("FAILS: the library panicked");
            1
        }
    }
}

fn main() {
    let args = parse_args();
    let known = Known::load(&args.known);
    let _ = scenario::FOCUS.set(args.focus.clone());
    if let Some(rp) = &args.replay {
        let t = std::fs::read_to_string(rp).expect("replay file");
        let v: serde_json::Value = serde_json::from_str(&t).expect("json");
        if let Some(k) = v["input"]["kind"].as_str() {
            if k == "diffmap" || k == "mutators" || k == "traversal" {
                // these checks are tiny: re-run the whole enumeration on the current tree and look for the recorded case
                let (_, _, fails) = if k == "diffmap" { plain::check_diffmap(5) } else { plain::check_mutators(5) };
                let hit: Vec<&plain::PFail> = fails.iter().filter(|f| f.input == v["input"]).collect();
                println!("replaying {} on the real crate", v["input"]);
                if let Some(f) = hit.first() {
                    println!("FAILS: [{}] {}\n  expected: {}\n  observed: {}", f.classification, f.what, f.expected, f.observed);
                    std::process::exit(1);
                }
                println!("passes on the current tree ({} other failing case(s) in the same enumeration)", fails.len());
                std::process::exit(0);
            }
        }
        if v["input"]["kind"].as_str() == Some("obs") || v["input"]["kind"].as_str() == Some("obs-held") || v["input"]["kind"].as_str() == Some("obs-guard") || v["input"]["kind"].as_str() == Some("obs-unwind") || v["input"]["kind"].as_str() == Some("obs-race") {
            std::process::exit(replay_obs(&v));
        }
        let sc = Scenario::from_json(&v["input"]).expect("scenario");
        println!("replaying on the real crates: {}", v["input"]);
        let o = std::panic::catch_unwind(std::panic::AssertUnwindSafe(|| run(&sc)));
        match o {
            Ok(o) => match o.failure {
                Some(f) => {
                    println!("FAILS: [{}] {} at step {}\n  expected: {}\n  observed: {}", f.classification, f.what, f.step, f.expected, f.observed);
                    std::process::exit(1);
                }
                None => {
                    println!("passes (no divergence on the current tree); last stage emitted {:?}", o.final_log);
                    std::process::exit(0);
                }
            },
            Err(_) => {
                println!("FAILS: the library panicked");
                std::process::exit(1);
            }
        }
    }
    let t0 = std::time::Instant::now();
    let prev = std::panic::take_hook();
    std::panic::set_hook(Box::new(|_| {}));
    if args.check == "miri-set" {
        // executed under Miri (thorough tier of C20): a few dozen histories through every unsafe block of the library
        // (reusable_box via lagging/ordinary receives, the stream state swap via multi-diff batches, into_shared),
        // run inline on one thread; Miri reports undefined behaviour, double frees and leaks for exactly these runs.
        std::panic::set_hook(prev);
        let mut n = 0usize;
        let mut scs: Vec<Scenario> = Vec::new();
        for chain in [vec![Stage::Identity], vec![Stage::Filter(5)], vec![Stage::Head(2)], vec![Stage::Sort, Stage::Tail(2)]] {
            for batched in [false, true] {
                for (cap, ab) in [(16usize, None), (1usize, None), (16usize, Some(0usize))] {
                    scs.push(Scenario { cap, initial: 2, stages: chain.clone(), steps: vec![(Op::Tx(vec![Op::PushBack, Op::PushFront, Op::Set(0)], TxEnd::Commit), PollMode::One), (Op::Insert(1), PollMode::None), (Op::Remove(0), PollMode::Drain)], batched, drop_at_end: true, final_drain: ab.is_none(), abandon_at: ab });
                    scs.push(Scenario { cap, initial: 0, stages: chain.clone(), steps: vec![(Op::Append(2), PollMode::None), (Op::Tx(vec![Op::Clear, Op::PushBack], TxEnd::Rollback), PollMode::None), (Op::PushBack, PollMode::Drain)], batched, drop_at_end: true, final_drain: true, abandon_at: None });
                }
            }
        }
        let mut bad = 0;
        for sc in &scs {
            let o = run(sc);
            n += 1;
            if let Some(f) = o.failure {
                if known.matches(&f.classification).is_none() {
                    println!("FAIL {} {:?}", f.classification, sc.to_json());
                    bad += 1;
                }
            }
        }
        use obs::ObsOp as O;
        let hs: Vec<(bool, Vec<O>)> = vec![
            (true, vec![O::Subscribe, O::Poll(0), O::Set(1), O::IntoShared, O::Poll(0), O::CloneOwner, O::Downgrade, O::DropOwner(0), O::Set(0), O::Poll(0), O::DropOwner(0), O::Poll(0), O::Upgrade(0), O::Get(0)]),
            (true, vec![O::IntoShared, O::Subscribe, O::DropOwner(0), O::Read(0), O::DropSub(0)]),
            (false, vec![O::SubscribeReset, O::CloneSub(0), O::Poll(0), O::Poll(1), O::Update, O::Poll(1), O::Take, O::DropSub(0), O::DropOwner(0), O::Poll(0)]),
        ];
        for (u, ops) in &hs {
            for asy in [false, true] {
                let r = if asy { obs::run_history::<obs::AsyncSys>(*u, ops, false) } else { obs::run_history::<obs::SyncSys>(*u, ops, false) };
                n += 1;
                if let Some(f) = r {
                    println!("FAIL {} {:?}", f.classification, ops);
                    bad += 1;
                }
            }
        }
        println!("miri-set: {} histories executed, {} failed", n, bad);
        std::process::exit(if bad == 0 { 0 } else { 1 });
    }
    if args.check == "depcheck" {
        let t0 = std::time::Instant::now();
        let (evals, contracts, fails) = depcheck::run(if args.tier == "thorough" { 6 } else { 4 });
        std::panic::set_hook(prev);
        let fv: Vec<serde_json::Value> = fails.iter().take(30).map(|f| serde_json::json!({"properties": ["DEPCHECK"], "property": "DEPCHECK", "classification": format!("depcheck/{}", f.contract), "what": "an assumed contract of /verif/prelude disagrees with the real dependency", "step": 0, "expected": f.expected, "observed": f.observed, "known": null, "input": {"kind": "depcheck", "contract": f.contract, "input": f.input}})).collect();
        let j = serde_json::json!({
            "check": "depcheck", "tier": args.tier, "seed": 0,
            "scope": "every assumed dependency contract of /verif/prelude (imbl::Vector methods incl. the panics, iterator adapters, SmallVec/ArrayVec, tokio broadcast send/recv/lag/close/subscribe, Arc/Weak counts, VecDeque front/back/get/partition_point, the std / imbl behaviour behind the rewrites R-OPTCOMB / R-FORMUT / R-ITER / R-RETAIN / R-FMLOOP / R-FOREACH / R-FOLD, imbl binary_search_by / sort_by / last and Iterator::position on all key sequences with ties up to length 4 (thorough: 5)) transcribed as an executable predicate and compared with the real crates on all vectors up to length 4 (thorough: 6), capacities {1,2,3,5}, 0..retained+3 messages",
            "evaluations": evals, "distinct_nontrivial": contracts,
            "rule": "distinct non-trivial cases = distinct prelude contracts exercised",
            "exhaustive": true, "samples": [], "failures": fv, "elapsed_s": t0.elapsed().as_secs_f64(),
        });
        let text = serde_json::to_string_pretty(&j).unwrap();
        match &args.out {
            Some(p) => std::fs::write(p, text).unwrap(),
            None => println!("{}", text),
        }
        return;
    }
    if args.check == "diffmap" || args.check == "mutators" {
        let t0 = std::time::Instant::now();
        let maxn = if args.tier == "thorough" { 5 } else { 4 };
        let (evals, kinds, fails) = if args.check == "diffmap" { plain::check_diffmap(maxn) } else { plain::check_mutators(maxn) };
        std::panic::set_hook(prev);
        let mut seen = BTreeSet::new();
        let mut fv = Vec::new();
        for f in fails {
            if seen.insert(f.classification.clone() + &f.what) {
                fv.push(serde_json::json!({"properties": [f.property], "property": f.property, "classification": f.classification, "what": f.what, "step": 0, "expected": f.expected, "observed": f.observed, "known": known.matches(&f.classification), "input": f.input}));
            }
        }
        let j = serde_json::json!({
            "check": args.check, "tier": args.tier, "seed": 0,
            "scope": if args.check == "diffmap" { format!("VectorDiff::apply and ::map: all eleven diff kinds with every index / length from 0 to len+2 (in range and beyond) on every vector of length 0..={}; apply compared with a plain-vector reference incl. 'panics exactly for insert/set/remove beyond the end'; map(+100) commutes with apply; identity map returns an equal diff", maxn) } else { format!("ObservableVector and transaction mutators with every index from 0 to len+2 on vectors of length 0..={} (contents, return value, out-of-range panics change nothing and notify nobody); every per-element decision sequence keep/set/remove/set-then-remove/stop over entries() and for_each(), directly and inside a transaction", maxn) },
            "evaluations": evals, "distinct_nontrivial": kinds,
            "rule": "distinct non-trivial cases = distinct (operation, in transaction / panics, empty vector) classes exercised",
            "exhaustive": true, "samples": [], "failures": fv, "elapsed_s": t0.elapsed().as_secs_f64(),
        });
        let text = serde_json::to_string_pretty(&j).unwrap();
        match &args.out {
            Some(p) => std::fs::write(p, text).unwrap(),
            None => println!("{}", text),
        }
        return;
    }
    if args.check == "obs-race" {
        let j = run_obs_race(&args.tier, &known);
        std::panic::set_hook(prev);
        let text = serde_json::to_string_pretty(&j).unwrap();
        match &args.out {
            Some(p) => std::fs::write(p, text).unwrap(),
            None => println!("{}", text),
        }
        return;
    }
    if args.check == "obs-guard" {
        let j = run_obs_guard(&args.tier, &known);
        std::panic::set_hook(prev);
        let text = serde_json::to_string_pretty(&j).unwrap();
        match &args.out {
            Some(p) => std::fs::write(p, text).unwrap(),
            None => println!("{}", text),
        }
        return;
    }
    if args.check == "obs-held" {
        let j = run_obs_held(&args.tier, &known);
        std::panic::set_hook(prev);
        let text = serde_json::to_string_pretty(&j).unwrap();
        match &args.out {
            Some(p) => std::fs::write(p, text).unwrap(),
            None => println!("{}", text),
        }
        return;
    }
    if args.check.starts_with("obs") {
        let j = run_obs(&args.check, &args.tier, args.seed, &known);
        std::panic::set_hook(prev);
        let text = serde_json::to_string_pretty(&j).unwrap();
        match &args.out {
            Some(p) => std::fs::write(p, text).unwrap(),
            None => println!("{}", text),
        }
        return;
    }
    let (scs, scope) = build(&args.check, &args.tier, args.seed);
    if scs.is_empty() {
        eprintln!("unknown check {}", args.check);
        std::process::exit(2);
    }
    let rep = Mutex::new(Report::default());
    run_all(scs, &known, &rep);
    std::panic::set_hook(prev);
    let rep = rep.into_inner().unwrap();
    let mut fl: Vec<&(usize, serde_json::Value)> = rep.failures.values().collect();
    fl.sort_by_key(|x| x.0);
    let failures: Vec<serde_json::Value> = fl.iter().take(40).map(|x| x.1.clone()).collect();
    let j = serde_json::json!({
        "check": args.check, "tier": args.tier, "seed": args.seed,
        "scope": scope,
        "evaluations": rep.evaluations,
        "distinct_nontrivial": rep.tuples.len(),
        "rule": "every scenario is one complete history executed on the real crates; non-trivial distinct cases = distinct (stage kind, source operation kind, emitted diff kind) triples actually observed",
        "exhaustive": args.tier != "thorough",
        "diffs_emitted": rep.diffs,
        "resets_from_lag": rep.resets_from_lag,
        "samples": rep.samples,
        "failures": failures,
        "elapsed_s": t0.elapsed().as_secs_f64(),
    });
    let text = serde_json::to_string_pretty(&j).unwrap();
    match &args.out {
        Some(p) => std::fs::write(p, text).unwrap(),
        None => println!("{}", text),
    }
}
