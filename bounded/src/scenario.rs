//! A scenario = (capacity, initial length, chain of adapter stages, history of ops with poll modes, flavour).
//! `run` executes it on the real crates and checks every stage's rebuilt view against the oracle.
use crate::harness::*;
use crate::ops::*;
use eyeball_im::{ObservableVector, VectorDiff};
use eyeball_im_util::vector::{VectorObserver, VectorObserverExt, VectorSubscriberExt};
use imbl::Vector;
use std::cell::RefCell;
use std::rc::Rc;
use std::task::Poll;

pub const K: u32 = 3; // number of item classes

/// property the run is made for (`--focus`): the side checks of other properties (per-diff limit C15, wake-ups C14)
/// then do not abandon a history, so that the history reaches the checks of the property in focus
pub static FOCUS: std::sync::OnceLock<Option<String>> = std::sync::OnceLock::new();
fn side_check(prop: &str) -> bool {
    match FOCUS.get() {
        Some(Some(f)) => f == prop,
        _ => true,
    }
}

#[derive(Clone, Debug, PartialEq, Eq, Hash)]
pub enum Stage {
    /// no adapter: the plain subscriber stream (C05/C06/C07/C08)
    Identity,
    Head(usize),
    HeadDyn,
    HeadDynInit(usize),
    Tail(usize),
    TailDyn,
    TailDynInit(usize),
    Skip(usize),
    SkipDyn,
    SkipDynInit(usize),
    Filter(u8),
    FilterMap(u8),
    Sort,
    SortBy(u8),
    SortByKey(u8),
}

pub const KEY_TABLES: [[u8; 3]; 4] = [[0, 1, 2], [2, 1, 0], [0, 0, 1], [1, 0, 0]];

impl Stage {
    pub fn name(&self) -> &'static str {
        match self {
            Stage::Identity => "subscriber",
            Stage::Head(_) | Stage::HeadDyn | Stage::HeadDynInit(_) => "head",
            Stage::Tail(_) | Stage::TailDyn | Stage::TailDynInit(_) => "tail",
            Stage::Skip(_) | Stage::SkipDyn | Stage::SkipDynInit(_) => "skip",
            Stage::Filter(_) => "filter",
            Stage::FilterMap(_) => "filter_map",
            Stage::Sort => "sort",
            Stage::SortBy(_) => "sort_by",
            Stage::SortByKey(_) => "sort_by_key",
        }
    }
    pub fn is_dynamic(&self) -> bool {
        matches!(self, Stage::HeadDyn | Stage::HeadDynInit(_) | Stage::TailDyn | Stage::TailDynInit(_) | Stage::SkipDyn | Stage::SkipDynInit(_))
    }
    pub fn fixed_limit(&self) -> Option<usize> {
        match self {
            Stage::Head(l) | Stage::Tail(l) => Some(*l),
            _ => None,
        }
    }
    pub fn initial_param(&self) -> Option<usize> {
        match self {
            Stage::Head(l) | Stage::Tail(l) | Stage::Skip(l) | Stage::HeadDynInit(l) | Stage::TailDynInit(l) | Stage::SkipDynInit(l) => Some(*l),
            _ => None,
        }
    }
    pub fn to_text(&self) -> String {
        format!("{:?}", self)
    }
    pub fn parse(s: &str) -> Option<Stage> {
        let s = s.trim();
        let (name, arg) = match s.find('(') {
            Some(i) => (&s[..i], s[i + 1..s.len() - 1].parse::<usize>().ok()),
            None => (s, None),
        };
        Some(match (name, arg) {
            ("Identity", None) => Stage::Identity,
            ("Head", Some(a)) => Stage::Head(a),
            ("HeadDyn", None) => Stage::HeadDyn,
            ("HeadDynInit", Some(a)) => Stage::HeadDynInit(a),
            ("Tail", Some(a)) => Stage::Tail(a),
            ("TailDyn", None) => Stage::TailDyn,
            ("TailDynInit", Some(a)) => Stage::TailDynInit(a),
            ("Skip", Some(a)) => Stage::Skip(a),
            ("SkipDyn", None) => Stage::SkipDyn,
            ("SkipDynInit", Some(a)) => Stage::SkipDynInit(a),
            ("Filter", Some(a)) => Stage::Filter(a as u8),
            ("FilterMap", Some(a)) => Stage::FilterMap(a as u8),
            ("Sort", None) => Stage::Sort,
            ("SortBy", Some(a)) => Stage::SortBy(a as u8),
            ("SortByKey", Some(a)) => Stage::SortByKey(a as u8),
            _ => return None,
        })
    }
}

fn key_of(t: u8, x: &It) -> u8 {
    KEY_TABLES[t as usize % KEY_TABLES.len()][x.class(K)]
}
fn passes(bits: u8, x: &It) -> bool {
    (bits >> x.class(K)) & 1 == 1
}
fn fm(bits: u8, x: It) -> Option<It> {
    if passes(bits, &x) {
        Some(It::new(x.0 + 1000))
    } else {
        None
    }
}

/// The view a stage must present for input `inp` under parameter `param`; `Err` = predicate (sort with ties).
pub fn check_stage(st: &Stage, param: Option<usize>, inp: &[u32], got: &[u32]) -> Result<(), String> {
    let exp: Vec<u32> = match st {
        Stage::Identity => inp.to_vec(),
        Stage::Head(_) | Stage::HeadDyn | Stage::HeadDynInit(_) => match param {
            Some(l) => inp.iter().take(l).cloned().collect(),
            None => vec![],
        },
        Stage::Tail(_) | Stage::TailDyn | Stage::TailDynInit(_) => match param {
            Some(l) => inp.iter().skip(inp.len().saturating_sub(l)).cloned().collect(),
            None => vec![],
        },
        Stage::Skip(_) | Stage::SkipDyn | Stage::SkipDynInit(_) => match param {
            Some(c) => inp.iter().skip(c).cloned().collect(),
            None => vec![],
        },
        Stage::Filter(b) => inp.iter().filter(|x| passes(*b, &It::new(**x))).cloned().collect(),
        Stage::FilterMap(b) => inp.iter().filter_map(|x| fm(*b, It::new(*x)).map(|y| y.0)).collect(),
        Stage::Sort => {
            let mut v = inp.to_vec();
            v.sort();
            v
        }
        Stage::SortBy(t) | Stage::SortByKey(t) => {
            let mut a = inp.to_vec();
            let mut b = got.to_vec();
            a.sort();
            b.sort();
            if a != b {
                return Err(format!("not a permutation of the input: input {:?}", inp));
            }
            for w in got.windows(2) {
                if key_of(*t, &It::new(w[0])) > key_of(*t, &It::new(w[1])) {
                    return Err(format!("not ordered by the comparison (keys {:?})", got.iter().map(|x| key_of(*t, &It::new(*x))).collect::<Vec<_>>()));
                }
            }
            return Ok(());
        }
    };
    if exp == got {
        Ok(())
    } else {
        Err(format!("expected {:?}", exp))
    }
}

#[derive(Clone, Copy, Debug, PartialEq, Eq, Hash)]
pub enum PollMode {
    Drain,
    One,
    None,
}

#[derive(Clone, Debug)]
pub struct Scenario {
    pub cap: usize,
    pub initial: usize,
    pub stages: Vec<Stage>,
    pub steps: Vec<(Op, PollMode)>,
    pub batched: bool,
    pub drop_at_end: bool,
    /// drain the stream once more before the source is dropped (false: the first poll after the last step happens after the drop)
    pub final_drain: bool,
    /// drop the stream (and everything downstream) right after this step without draining it; later steps only touch the source
    pub abandon_at: Option<usize>,
}

impl Scenario {
    pub fn to_json(&self) -> serde_json::Value {
        serde_json::json!({
            "capacity": self.cap,
            "initial_len": self.initial,
            "stages": self.stages.iter().map(|s| s.to_text()).collect::<Vec<_>>(),
            "steps": self.steps.iter().map(|(o, p)| format!("{} / {:?}", o.to_text(), p)).collect::<Vec<_>>(),
            "batched": self.batched,
            "drop_at_end": self.drop_at_end,
            "final_drain": self.final_drain,
            "abandon_stream_after_step": self.abandon_at,
        })
    }
    pub fn from_json(v: &serde_json::Value) -> Option<Scenario> {
        let stages = v["stages"].as_array()?.iter().map(|s| Stage::parse(s.as_str()?)).collect::<Option<Vec<_>>>()?;
        let mut steps = Vec::new();
        for s in v["steps"].as_array()? {
            let s = s.as_str()?;
            let (a, b) = s.rsplit_once(" / ")?;
            let pm = match b {
                "Drain" => PollMode::Drain,
                "One" => PollMode::One,
                "None" => PollMode::None,
                _ => return None,
            };
            steps.push((Op::parse(a)?, pm));
        }
        Some(Scenario { cap: v["capacity"].as_u64()? as usize, initial: v["initial_len"].as_u64()? as usize, stages, steps, batched: v["batched"].as_bool()?, drop_at_end: v["drop_at_end"].as_bool().unwrap_or(true), final_drain: v["final_drain"].as_bool().unwrap_or(true), abandon_at: v["abandon_stream_after_step"].as_u64().map(|x| x as usize) })
    }
}

#[derive(Clone, Debug)]
pub struct Failure {
    /// which property the failed check belongs to
    pub property: &'static str,
    /// e.g. "tail/SetParam:decrease-from-beyond-len"
    pub classification: String,
    pub what: String,
    pub step: usize,
    pub expected: String,
    pub observed: String,
    /// further properties the same divergence violates (e.g. C13 when it was first seen right after an emitted batch)
    pub also: Vec<&'static str>,
}

struct StageRt {
    st: Stage,
    initial: Vec<u32>,
    log: Rc<RefCell<Vec<Vec<VectorDiff<It>>>>>, // items (each item = list of diffs)
    ended: Rc<RefCell<bool>>,
    consumed: usize,
    replica: Vector<It>,
    param: Option<usize>,
    handle: Option<QueueHandle<usize>>,
    /// set when the adapter's stream, used as an observer itself (`VectorObserver::into_parts`), handed over something
    /// else than the view its constructor returned: (values from the constructor, values from into_parts)
    handover: Option<(Vec<u32>, Vec<u32>)>,
}

/// statistics a run reports (for the coverage numbers of the evidence)
#[derive(Default, Clone)]
pub struct RunStats {
    pub diffs_emitted: usize,
    pub tuples: Vec<(String, &'static str, &'static str)>, // (stage, source op kind, emitted diff kind)
    pub resets_from_lag: usize,
}

macro_rules! build_chain {
    ($fname:ident, $item:ty) => {
        fn $fname(values: Vector<It>, stream: DynStream<$item>, stages: &[Stage]) -> (Vec<StageRt>, DynStream<$item>) {
            let mut rts = Vec::new();
            let mut cur_v = values;
            let mut cur_s = stream;
            for (sti, st) in stages.iter().enumerate() {
                let is_last = sti + 1 == stages.len();
                let handle = if st.is_dynamic() { Some(QueueHandle::<usize>::new()) } else { None };
                let obs = (cur_v, cur_s);
                let mut handover: Option<(Vec<u32>, Vec<u32>)> = None;
                let (v2, s2): (Vector<It>, DynStream<$item>) = match st.clone() {
                    Stage::Identity => obs,
                    Stage::Head(l) => {
                        let (v, s) = obs.head(l);
                        if is_last {
                            (v, Box::pin(s))
                        } else {
                            // chaining through the stream alone: what the next stage gets when the stream is the observer
                            let (v2, s2) = s.into_parts();
                            if ids(&v2) != ids(&v) {
                                handover = Some((ids(&v), ids(&v2)));
                            }
                            (v2, Box::pin(s2))
                        }
                    }
                    Stage::HeadDyn => {
                        let h = obs.dynamic_head(handle.as_ref().unwrap().stream());
                        if is_last {
                            // the user of a purely dynamic adapter gets only the stream; its view starts empty
                            (Vector::new(), Box::pin(h))
                        } else {
                            // chaining: what VectorObserverExt methods do with the adapter
                            let (v, s) = h.into_parts();
                            (v, Box::pin(s))
                        }
                    }
                    Stage::HeadDynInit(l) => {
                        let (v, s) = obs.dynamic_head_with_initial_value(l, handle.as_ref().unwrap().stream());
                        if is_last {
                            (v, Box::pin(s))
                        } else {
                            // chaining through the stream alone: what the next stage gets when the stream is the observer
                            let (v2, s2) = s.into_parts();
                            if ids(&v2) != ids(&v) {
                                handover = Some((ids(&v), ids(&v2)));
                            }
                            (v2, Box::pin(s2))
                        }
                    }
                    Stage::Tail(l) => {
                        let (v, s) = obs.tail(l);
                        if is_last {
                            (v, Box::pin(s))
                        } else {
                            // chaining through the stream alone: what the next stage gets when the stream is the observer
                            let (v2, s2) = s.into_parts();
                            if ids(&v2) != ids(&v) {
                                handover = Some((ids(&v), ids(&v2)));
                            }
                            (v2, Box::pin(s2))
                        }
                    }
                    Stage::TailDyn => {
                        let h = obs.dynamic_tail(handle.as_ref().unwrap().stream());
                        if is_last {
                            // the user of a purely dynamic adapter gets only the stream; its view starts empty
                            (Vector::new(), Box::pin(h))
                        } else {
                            // chaining: what VectorObserverExt methods do with the adapter
                            let (v, s) = h.into_parts();
                            (v, Box::pin(s))
                        }
                    }
                    Stage::TailDynInit(l) => {
                        let (v, s) = obs.dynamic_tail_with_initial_value(l, handle.as_ref().unwrap().stream());
                        if is_last {
                            (v, Box::pin(s))
                        } else {
                            // chaining through the stream alone: what the next stage gets when the stream is the observer
                            let (v2, s2) = s.into_parts();
                            if ids(&v2) != ids(&v) {
                                handover = Some((ids(&v), ids(&v2)));
                            }
                            (v2, Box::pin(s2))
                        }
                    }
                    Stage::Skip(l) => {
                        let (v, s) = obs.skip(l);
                        if is_last {
                            (v, Box::pin(s))
                        } else {
                            // chaining through the stream alone: what the next stage gets when the stream is the observer
                            let (v2, s2) = s.into_parts();
                            if ids(&v2) != ids(&v) {
                                handover = Some((ids(&v), ids(&v2)));
                            }
                            (v2, Box::pin(s2))
                        }
                    }
                    Stage::SkipDyn => {
                        let h = obs.dynamic_skip(handle.as_ref().unwrap().stream());
                        if is_last {
                            // the user of a purely dynamic adapter gets only the stream; its view starts empty
                            (Vector::new(), Box::pin(h))
                        } else {
                            // chaining: what VectorObserverExt methods do with the adapter
                            let (v, s) = h.into_parts();
                            (v, Box::pin(s))
                        }
                    }
                    Stage::SkipDynInit(l) => {
                        let (v, s) = obs.dynamic_skip_with_initial_count(l, handle.as_ref().unwrap().stream());
                        if is_last {
                            (v, Box::pin(s))
                        } else {
                            // chaining through the stream alone: what the next stage gets when the stream is the observer
                            let (v2, s2) = s.into_parts();
                            if ids(&v2) != ids(&v) {
                                handover = Some((ids(&v), ids(&v2)));
                            }
                            (v2, Box::pin(s2))
                        }
                    }
                    Stage::Filter(b) => {
                        let (v, s) = obs.filter(move |x: &It| passes(b, x));
                        (v, Box::pin(s))
                    }
                    Stage::FilterMap(b) => {
                        let (v, s) = obs.filter_map(move |x: It| fm(b, x));
                        (v, Box::pin(s))
                    }
                    Stage::Sort => {
                        let (v, s) = obs.sort();
                        (v, Box::pin(s))
                    }
                    Stage::SortBy(t) => {
                        let (v, s) = obs.sort_by(move |a: &It, b: &It| key_of(t, a).cmp(&key_of(t, b)));
                        (v, Box::pin(s))
                    }
                    Stage::SortByKey(t) => {
                        let (v, s) = obs.sort_by_key(move |a: &It| key_of(t, a));
                        (v, Box::pin(s))
                    }
                };
                let log = Rc::new(RefCell::new(Vec::new()));
                let ended = Rc::new(RefCell::new(false));
                let tap = TapD { inner: s2, log: log.clone(), ended: ended.clone() };
                rts.push(StageRt { st: st.clone(), initial: ids(&v2), log, ended, consumed: 0, replica: v2.clone(), param: st.initial_param(), handle, handover });
                cur_v = v2;
                cur_s = Box::pin(tap);
            }
            (rts, cur_s)
        }
    };
}

/// Tap that records each item as its list of diffs.
struct TapD<I> {
    inner: DynStream<I>,
    log: Rc<RefCell<Vec<Vec<VectorDiff<It>>>>>,
    ended: Rc<RefCell<bool>>,
}
impl<I: Item> futures_core::Stream for TapD<I> {
    type Item = I;
    fn poll_next(mut self: std::pin::Pin<&mut Self>, cx: &mut std::task::Context<'_>) -> Poll<Option<I>> {
        let r = self.inner.as_mut().poll_next(cx);
        match &r {
            Poll::Ready(Some(i)) => self.log.borrow_mut().push(i.diffs()),
            Poll::Ready(None) => *self.ended.borrow_mut() = true,
            Poll::Pending => {}
        }
        r
    }
}

build_chain!(build_chain_single, VectorDiff<It>);
build_chain!(build_chain_batched, Vec<VectorDiff<It>>);

pub struct Outcome {
    pub failure: Option<Failure>,
    pub stats: RunStats,
    pub final_log: Vec<Vec<String>>, // items of the last stage, formatted
}

/// tags describing what happened since the last successful quiescent check (for classification)
fn window_tags(stages: &[StageRt], op: &Op, base_off: usize, src_len_before: usize, views_before: &[usize]) -> Vec<String> {
    let mut kinds = Vec::new();
    op.flat_kinds(&mut kinds);
    let mut out: Vec<String> = kinds.iter().map(|k| k.to_string()).collect();
    if let Op::SetParam(si, newv) = op {
        let si = &(*si + base_off);
        if let Some(rt) = stages.get(*si) {
            let inp_len = if *si == 0 { src_len_before } else { views_before[*si - 1] };
            if let Some(old) = rt.param {
                if rt.st.name() == "tail" && old > inp_len && *newv < old {
                    out.push("SetParam:decrease-from-beyond-len".into());
                }
            }
        }
    }
    out
}

pub fn run(sc: &Scenario) -> Outcome {
    if !sc.batched {
        return run_impl::<VectorDiff<It>>(sc);
    }
    let mut out = run_impl::<Vec<VectorDiff<It>>>(sc);
    // C13, last sentence: with fixed parameters and no lag, the batched stream delivers the same diffs in the same order
    // as the plain one. Run the plain twin of this history and compare everything that was delivered.
    let c13 = matches!(FOCUS.get(), Some(Some(f)) if f == "C13") || matches!(FOCUS.get(), None | Some(None));
    let comparable = c13 && sc.cap >= 16 && sc.steps.len() < sc.cap && sc.final_drain && sc.abandon_at.is_none() && !sc.stages.iter().any(|s| s.is_dynamic());
    if comparable {
        let twin = Scenario { batched: false, ..sc.clone() };
        let o2 = run_impl::<VectorDiff<It>>(&twin);
        match (&mut out.failure, &o2.failure) {
            (None, None) => {
                let a: Vec<String> = out.final_log.iter().flatten().cloned().collect();
                let b: Vec<String> = o2.final_log.iter().flatten().cloned().collect();
                if a != b {
                    out.failure = Some(Failure {
                        property: "C13",
                        classification: format!("{}/flavours-differ", sc.stages.last().map(|s| s.name()).unwrap_or("subscriber")),
                        what: "with fixed parameters and no lag the batched stream does not deliver the same diffs in the same order as the plain stream".to_string(),
                        step: sc.steps.len(),
                        expected: format!("{:?}", b),
                        observed: format!("{:?}", a),
                        also: vec![],
                    });
                }
            }
            (Some(f), None) => {
                // the batched flavour goes wrong where the plain one does not
                if f.property != "C13" && !f.also.contains(&"C13") {
                    f.also.push("C13");
                }
            }
            _ => {}
        }
    }
    out
}

trait Flavour: Item {
    fn build(ob: &ObservableVector<It>, stages: &[Stage]) -> (Vec<StageRt>, DynStream<Self>, Vec<u32>);
}
impl Flavour for VectorDiff<It> {
    fn build(ob: &ObservableVector<It>, stages: &[Stage]) -> (Vec<StageRt>, DynStream<Self>, Vec<u32>) {
        let (v, s) = ob.subscribe().into_parts();
        let snap = ids(&v);
        let (rts, fin) = build_chain_single(v, Box::pin(s), stages);
        (rts, fin, snap)
    }
}
impl Flavour for Vec<VectorDiff<It>> {
    fn build(ob: &ObservableVector<It>, stages: &[Stage]) -> (Vec<StageRt>, DynStream<Self>, Vec<u32>) {
        let (v, s) = ob.subscribe().batched().into_parts();
        let snap = ids(&v);
        let (rts, fin) = build_chain_batched(v, Box::pin(s), stages);
        (rts, fin, snap)
    }
}

fn run_impl<I: Flavour>(sc: &Scenario) -> Outcome {
    let live0 = live();
    let mut out = run_inner::<I>(sc);
    // C20: every vector, stream, tap and diff of this history is gone now; no item may still be alive
    if out.failure.is_none() && live() != live0 {
        out.failure = Some(Failure {
            property: "C20",
            classification: format!("{}/leak", sc.stages.last().map(|s| s.name()).unwrap_or("subscriber")),
            what: "items handed to the library (or clones it made) are still alive after every vector, stream and diff was dropped".to_string(),
            step: sc.steps.len() + 2,
            expected: "0 live items".to_string(),
            observed: format!("{} live items", live() - live0),
            also: vec![],
        });
    }
    out
}

fn run_inner<I: Flavour>(sc: &Scenario) -> Outcome {
    let mut stats = RunStats::default();
    let mut fresh = Fresh(0);
    let mut ob = ObservableVector::<It>::with_capacity(sc.cap.max(1));
    let mut init = Vector::new();
    for _ in 0..sc.initial {
        init.push_back(fresh.get());
    }
    ob.append(init);
    let mut model = Model::new(sc.initial);
    // an implicit tap directly on the subscriber, so that a misbehaving subscriber stream is not blamed on the first adapter
    let base_off = if sc.stages.first() == Some(&Stage::Identity) { 0 } else { 1 };
    let mut all_stages: Vec<Stage> = Vec::new();
    if base_off == 1 {
        all_stages.push(Stage::Identity);
    }
    all_stages.extend(sc.stages.iter().cloned());
    let (mut rts, fin0, _snap) = I::build(&ob, &all_stages);
    for rt in rts.iter() {
        if let Some((from_ctor, from_parts)) = &rt.handover {
            return Outcome {
                failure: Some(Failure {
                    property: "C12",
                    classification: format!("{}/handover", rt.st.name()),
                    what: "the adapter's stream, used as the observer for the next stage (into_parts), does not hand over the view its constructor returned".to_string(),
                    step: 0,
                    expected: format!("{:?}", from_ctor),
                    observed: format!("{:?}", from_parts),
                    also: vec![],
                }),
                stats,
                final_log: Vec::new(),
            };
        }
    }
    let mut fin = Some(fin0);
    let mut abandoned = false;
    let mut closed_params: Vec<bool> = vec![false; rts.len()];
    let flag = Flag::new();
    let mut ob = Some(ob);

    // window bookkeeping (ops since the last successful quiescent check)
    let mut tags: Vec<String> = Vec::new();
    let mut top_states: Vec<Vec<u32>> = vec![model.v.clone()];
    let mut matched_state = 0usize;
    let mut registered = false; // last poll returned Pending, flag cleared afterwards
    let mut ended = false;
    let params_fixed = sc.stages.iter().all(|s| !s.is_dynamic());
    let nstages = sc.stages.len();
    let mut pending_c13: Option<Failure> = None;
    // diff kinds each stage has received from the stage below since the last successful quiescent check
    let mut recv: Vec<Vec<&'static str>> = vec![Vec::new(); rts.len() + 1];
    let mut fail_stage: usize = usize::MAX;
    let mut also_props: Vec<&'static str> = Vec::new();
    let mut last_op_kind: &'static str = "-";

    macro_rules! fail {
        ($prop:expr, $stage:expr, $what:expr, $step:expr, $exp:expr, $obs:expr) => {{
            let mut t = tags.clone();
            if fail_stage < recv.len() {
                for k in recv[fail_stage].iter() {
                    t.push(format!("recv:{}", k));
                }
                // what the stages below received (a defect of a lower stage can surface at a higher one)
                for up in 1..fail_stage {
                    for k in recv[up].iter() {
                        t.push(format!("up:{}:recv:{}", rts[up].st.name(), k));
                    }
                }
            }
            t.sort();
            t.dedup();
            return Outcome {
                failure: Some(Failure { property: $prop, classification: format!("{}/{}", $stage, t.join("+")), what: $what, step: $step, expected: $exp, observed: $obs, also: also_props.clone() }),
                stats,
                final_log: vec![],
            };
        }};
    }

    // initial check: every stage's initial values are the correct view (C09/C12/C15)
    {
        let mut inp: Vec<u32> = model.v.clone();
        for rt in rts.iter() {
            if let Err(e) = check_stage(&rt.st, rt.param, &inp, &rt.initial) {
                tags.push("initial".into());
                let prop = if nstages > 1 && rt.st != Stage::Identity { "C12" } else { prop_of(&rt.st) };
                fail!(prop, rt.st.name(), "initial values handed out by this stage are not its current view".to_string(), 0, format!("{} (stage {:?})", e, rt.st), format!("{:?}", rt.initial));
            }
            if let Some(l) = rt.st.fixed_limit() {
                if rt.initial.len() > l {
                    tags.push("initial".into());
                    fail!("C15", rt.st.name(), "initial values exceed the fixed limit".to_string(), 0, format!("<= {}", l), format!("{:?}", rt.initial));
                }
            }
            inp = rt.initial.clone();
        }
    }

    let total_steps = sc.steps.len() + 2; // + final drain + drop
    for step in 0..total_steps {
        // ---- perform the operation
        let mode;
        if step < sc.steps.len() {
            let (op, pm) = &sc.steps[step];
            mode = *pm;
            let views_before: Vec<usize> = rts.iter().map(|r| r.replica.len()).collect();
            for t in window_tags(&rts, op, base_off, model.v.len(), &views_before) {
                tags.push(t);
            }
            last_op_kind = op.kind();
            match op {
                Op::SetParam(si, v) => {
                    let si = *si + base_off;
                    if let Some(rt) = rts.get_mut(si) {
                        if let Some(h) = &rt.handle {
                            // a closed parameter stream announces nothing any more
                            if !closed_params[si] {
                                h.push(*v);
                                rt.param = Some(*v);
                            }
                        }
                    }
                }
                Op::CloseParam(si) => {
                    let si = *si + base_off;
                    if let Some(rt) = rts.get(si) {
                        if let Some(h) = &rt.handle {
                            h.close();
                            closed_params[si] = true;
                        }
                    }
                }
                Op::Tx(inner, TxEnd::DropStreamsThenCommit) => {
                    if let Some(obv) = ob.as_mut() {
                        apply_tx_with_midpoint(obv, inner, &mut fresh, || {
                            fin = None;
                            rts.clear();
                        });
                        abandoned = true;
                        model.apply(op);
                        model.next = fresh.0;
                    }
                }
                o => {
                    if let Some(obv) = ob.as_mut() {
                        apply_real(obv, o, &mut fresh);
                        model.apply(o);
                        model.next = fresh.0;
                        top_states.push(model.v.clone());
                        if ids(obv) != model.v {
                            tags.push("source".into());
                            fail!("C17", "vector", "ObservableVector contents differ from the plain-vector model".to_string(), step, format!("{:?}", model.v), format!("{:?}", ids(obv)));
                        }
                    }
                }
            }
        } else if step == sc.steps.len() {
            mode = if sc.final_drain { PollMode::Drain } else { PollMode::None };
        } else {
            if !sc.drop_at_end {
                break;
            }
            tags.push("DropSource".into());
            last_op_kind = "DropSource";
            ob = None;
            mode = PollMode::Drain;
        }
        if abandoned {
            continue;
        }
        if mode == PollMode::None || ended {
            if sc.abandon_at == Some(step) {
                fin = None;
                rts.clear();
                abandoned = true;
            }
            continue;
        }
        // ---- C14 (sleeping with work available): if the stream is parked and something observable changed, the waker must have fired
        let exp_changed = {
            // is the correct final view different from the final replica (or the source gone)?
            let mut inp: Vec<u32> = model.v.clone();
            let mut differs = ob.is_none();
            for rt in rts.iter() {
                // use oracle only for deterministic stages; sort stages: predicate
                if check_stage(&rt.st, rt.param, &inp, &ids(&rt.replica)).is_err() {
                    differs = true;
                    break;
                }
                inp = ids(&rt.replica);
            }
            differs
        };
        if side_check("C14") && registered && exp_changed && !flag.is_set() {
            fail!("C14", sc.stages.last().map(|s| s.name()).unwrap_or("subscriber"), "stream returned Pending earlier, its view is now stale (or the source is gone), but the waker was not woken".to_string(), step, "waker woken".into(), "not woken".into());
        }
        // ---- poll
        let mut polls = 0;
        loop {
            let r = poll_once(fin.as_mut().unwrap(), &flag);
            polls += 1;
            match r {
                Poll::Ready(Some(_item)) => {
                    if side_check("C14") && registered && !flag.is_set() {
                        fail!("C14", sc.stages.last().map(|s| s.name()).unwrap_or("subscriber"), "stream became ready again without the waker of the Pending poll having been woken".to_string(), step, "woken before ready".into(), "ready, not woken".into());
                    }
                    registered = false;
                    flag.take();
                    if mode == PollMode::One {
                        break;
                    }
                    if polls > 10_000 {
                        fail!("C09", "harness", "stream does not become pending".to_string(), step, "Pending".into(), ">10000 items".into());
                    }
                }
                Poll::Ready(None) => {
                    if side_check("C14") && registered && !flag.is_set() {
                        fail!("C14", sc.stages.last().map(|s| s.name()).unwrap_or("subscriber"), "stream ended without the waker of the Pending poll having been woken".to_string(), step, "woken before end".into(), "ended, not woken".into());
                    }
                    ended = true;
                    registered = false;
                    break;
                }
                Poll::Pending => {
                    registered = true;
                    flag.take();
                    break;
                }
            }
        }
        // ---- apply what flowed through every tap (applicability, C15 after every single diff, C13 per batch)
        let mut lag_reset = false;
        for si in 0..rts.len() {
            let items: Vec<Vec<VectorDiff<It>>> = rts[si].log.borrow()[rts[si].consumed..].to_vec();
            rts[si].consumed += items.len();
            for item in items {
                if I::BATCHED && item.is_empty() {
                    fail!("C13", rts[si].st.name(), "an empty batch was emitted".to_string(), step, "non-empty batch".into(), "[]".into());
                }
                for d in item.iter() {
                    stats.diffs_emitted += 1;
                    recv[si + 1].push(diff_kind(d));
                    fail_stage = si;
                    stats.tuples.push((rts[si].st.name().to_string(), last_op_kind, diff_kind(d)));
                    if matches!(d, VectorDiff::Reset { .. }) {
                        lag_reset = true;
                    }
                    if !applicable(d, &rts[si].replica) {
                        let st = rts[si].st.clone();
                        fail!(prop_of(&st), st.name(), "emitted a diff that is not applicable to the view built so far".to_string(), step, format!("applicable on {:?}", ids(&rts[si].replica)), fmt_diff(d));
                    }
                    d.clone().apply(&mut rts[si].replica);
                    if let Some(l) = rts[si].st.fixed_limit() {
                        if side_check("C15") && rts[si].replica.len() > l {
                            let st = rts[si].st.clone();
                            fail!("C15", st.name(), "view of a fixed-limit stage exceeds the limit after a single diff".to_string(), step, format!("len <= {}", l), format!("{:?} after {}", ids(&rts[si].replica), fmt_diff(d)));
                        }
                    }
                }
                // C13: after each batch of the last stage the view is the view of a state the source actually had
                if I::BATCHED && params_fixed && si == rts.len() - 1 {
                    let got = ids(&rts[si].replica);
                    let mut ok = false;
                    for j in matched_state..top_states.len() {
                        let mut inp = top_states[j].clone();
                        let mut good = true;
                        for (k, rt) in rts.iter().enumerate() {
                            let g = if k == rts.len() - 1 { got.clone() } else { expected_view(&rt.st, rt.param, &inp) };
                            if k == rts.len() - 1 {
                                if check_stage(&rt.st, rt.param, &inp, &g).is_err() {
                                    good = false;
                                }
                            }
                            inp = g;
                        }
                        if good {
                            ok = true;
                            matched_state = j;
                            break;
                        }
                    }
                    if !ok && !has_sort_before_last(&sc.stages) && pending_c13.is_none() {
                        // reported at the next quiescent point, and only if every stage below is right there (attribution)
                        let st = rts[si].st.clone();
                        let mut t = tags.clone();
                        for k in recv[si].iter() {
                            t.push(format!("recv:{}", k));
                        }
                        for up in 1..si {
                            for k in recv[up].iter() {
                                t.push(format!("up:{}:recv:{}", rts[up].st.name(), k));
                            }
                        }
                        t.sort();
                        t.dedup();
                        pending_c13 = Some(Failure { property: "C13", classification: format!("{}/{}", st.name(), t.join("+")), what: "after an emitted batch the rebuilt view is not the adapter's view of any state the source had between top-level operations".to_string(), step, expected: format!("view of one of {:?}", &top_states[matched_state..]), observed: format!("{:?}", got), also: vec![] });
                    }
                }
            }
        }
        if lag_reset {
            stats.resets_from_lag += 1;
        }
        // ---- quiescent check (only when the poll loop ended in Pending or end-of-stream)
        if registered || ended {
            let mut inp: Vec<u32> = model.v.clone();
            for (k, rt) in rts.iter().enumerate() {
                fail_stage = k;
                let got = ids(&rt.replica);
                if k + 1 == rts.len() && pending_c13.is_some() {
                    also_props.push("C13");
                }
                if let Err(e) = check_stage(&rt.st, rt.param, &inp, &got) {
                    let prop = if nstages > 1 && rt.st != Stage::Identity { "C12" } else { prop_of(&rt.st) };
                    fail!(prop, rt.st.name(), "at Pending (or end of stream), the view rebuilt from this stage differs from the correct view of its input".to_string(), step, format!("{} (input {:?}, stage {:?})", e, inp, rt.st), format!("{:?}", got));
                }
                inp = got;
            }
            also_props.clear();
            if let Some(f) = pending_c13.take() {
                return Outcome { failure: Some(f), stats, final_log: vec![] };
            }
            tags.clear();
            for r in recv.iter_mut() {
                r.clear();
            }
            fail_stage = usize::MAX;
        }
        // ---- end-of-stream exactly when the source is gone
        if ended && ob.is_some() {
            // a closed parameter stream must not end the adapter
            fail!(prop_of(sc.stages.last().unwrap_or(&Stage::Sort)), sc.stages.last().map(|s| s.name()).unwrap_or("subscriber"), "stream ended while the source is alive".to_string(), step, "Pending".into(), "None".into());
        }
        if sc.abandon_at == Some(step) {
            fin = None;
            rts.clear();
            abandoned = true;
            continue;
        }
        if ob.is_none() && !ended && mode == PollMode::Drain {
            fail!(prop_of(sc.stages.last().unwrap_or(&Stage::Sort)), sc.stages.last().map(|s| s.name()).unwrap_or("subscriber"), "source dropped but the stream did not end".to_string(), step, "None".into(), "Pending".into());
        }
    }
    // C05: "a direct call contributes exactly one diff, and the documented no-ops (pop on empty, clear on empty, truncate to at
    // least the current length) contribute none": count what the plain subscriber received over a history of direct calls
    if !abandoned && sc.final_drain && sc.cap >= 16 && sc.steps.len() < sc.cap && side_check("C05") {
        let mut expected = 0usize;
        let mut direct_only = true;
        let mut m2 = Model::new(sc.initial);
        for (o, _) in &sc.steps {
            let len = m2.v.len();
            match o {
                Op::Tx(..) => direct_only = false,
                Op::SetParam(..) | Op::CloseParam(..) => {}
                Op::Clear | Op::PopFront | Op::PopBack => expected += (len > 0) as usize,
                Op::Truncate(n) => expected += (*n < len) as usize,
                _ => expected += 1,
            }
            m2.apply(o);
        }
        if direct_only {
            if let Some(base) = rts.first() {
                if base.st == Stage::Identity {
                    let got: usize = base.log.borrow().iter().map(|it| it.len()).sum();
                    if got != expected {
                        let step = sc.steps.len();
                        fail!("C05", "subscriber", "a direct call contributes exactly one diff and the documented no-ops none: the number of diffs the subscriber received differs".to_string(), step, format!("{} diffs", expected), format!("{} diffs", got));
                    }
                }
            }
        }
    }
    let final_log = rts.last().map(|r| r.log.borrow().iter().map(|it| it.iter().map(fmt_diff).collect()).collect()).unwrap_or_default();
    Outcome { failure: None, stats, final_log }
}

fn has_sort_before_last(stages: &[Stage]) -> bool {
    stages.iter().any(|s| matches!(s, Stage::SortBy(_) | Stage::SortByKey(_)))
}

fn expected_view(st: &Stage, param: Option<usize>, inp: &[u32]) -> Vec<u32> {
    match st {
        Stage::Identity => inp.to_vec(),
        Stage::Head(_) | Stage::HeadDyn | Stage::HeadDynInit(_) => param.map(|l| inp.iter().take(l).cloned().collect()).unwrap_or_default(),
        Stage::Tail(_) | Stage::TailDyn | Stage::TailDynInit(_) => param.map(|l| inp.iter().skip(inp.len().saturating_sub(l)).cloned().collect()).unwrap_or_default(),
        Stage::Skip(_) | Stage::SkipDyn | Stage::SkipDynInit(_) => param.map(|c| inp.iter().skip(c).cloned().collect()).unwrap_or_default(),
        Stage::Filter(b) => inp.iter().filter(|x| passes(*b, &It::new(**x))).cloned().collect(),
        Stage::FilterMap(b) => inp.iter().filter_map(|x| fm(*b, It::new(*x)).map(|y| y.0)).collect(),
        Stage::Sort => {
            let mut v = inp.to_vec();
            v.sort();
            v
        }
        Stage::SortBy(t) | Stage::SortByKey(t) => {
            let mut v = inp.to_vec();
            v.sort_by_key(|x| key_of(*t, &It::new(*x)));
            v
        }
    }
}

pub fn prop_of(st: &Stage) -> &'static str {
    match st.name() {
        "subscriber" => "C05",
        "head" | "tail" | "skip" => "C09",
        "filter" | "filter_map" => "C10",
        _ => "C11",
    }
}
