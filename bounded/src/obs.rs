//! Bounded histories on eyeball's Observable / SharedObservable and their subscribers (C01, C02, C03, C16, C19),
//! sync and async-lock flavours, against a small reference model.
use crate::harness::{flag_waker, Flag};
use eyeball::{AsyncLock, Observable, SharedObservable, Subscriber, WeakObservable};
use futures_core::Stream;
use std::future::Future;
use std::hash::{Hash, Hasher};
use std::pin::Pin;
use std::sync::Arc;
use std::task::{Context, Poll};

/// value with an equality (and hash) that is coarser than identity: only `key` counts
#[derive(Clone, Debug, Default)]
pub struct Val {
    pub key: u8,
    pub tag: u32,
}
impl PartialEq for Val {
    fn eq(&self, o: &Self) -> bool {
        self.key == o.key
    }
}
impl Hash for Val {
    fn hash<H: Hasher>(&self, h: &mut H) {
        self.key.hash(h)
    }
}
fn same(a: &Val, b: &Val) -> bool {
    a.key == b.key && a.tag == b.tag
}

#[derive(Clone, Debug, PartialEq, Eq, Hash)]
pub enum ObsOp {
    // writers (through the last owner)
    Set(u8),
    SetIfNotEq(u8),
    SetIfHashNotEq(u8),
    Update,
    UpdateIf(bool),
    Take,
    GuardSet(u8),
    GuardSetIfNotEq(u8),
    GuardUpdateIf(bool),
    OwnerGet,
    OwnerRead,
    // handles
    CloneOwner,
    DropOwner(usize),
    Downgrade,
    Upgrade(usize),
    CloneWeak(usize),
    DropWeak(usize),
    IntoShared,
    Subscribe,
    SubscribeReset,
    // subscribers
    Poll(usize),
    PollOtherWaker(usize),
    NextNow(usize),
    NextRefNow(usize),
    Get(usize),
    Read(usize),
    Reset(usize),
    CloneSub(usize),
    CloneReset(usize),
    DropSub(usize),
}
impl ObsOp {
    pub fn to_text(&self) -> String {
        format!("{:?}", self)
    }
    pub fn parse(s: &str) -> Option<ObsOp> {
        let s = s.trim();
        let (name, arg) = match s.find('(') {
            Some(i) => (&s[..i], Some(&s[i + 1..s.len() - 1])),
            None => (s, None),
        };
        let n = || arg.and_then(|a| a.parse::<usize>().ok());
        let b = || arg.and_then(|a| a.parse::<bool>().ok());
        Some(match name {
            "Set" => ObsOp::Set(n()? as u8),
            "SetIfNotEq" => ObsOp::SetIfNotEq(n()? as u8),
            "SetIfHashNotEq" => ObsOp::SetIfHashNotEq(n()? as u8),
            "Update" => ObsOp::Update,
            "UpdateIf" => ObsOp::UpdateIf(b()?),
            "Take" => ObsOp::Take,
            "GuardSet" => ObsOp::GuardSet(n()? as u8),
            "GuardSetIfNotEq" => ObsOp::GuardSetIfNotEq(n()? as u8),
            "GuardUpdateIf" => ObsOp::GuardUpdateIf(b()?),
            "OwnerGet" => ObsOp::OwnerGet,
            "OwnerRead" => ObsOp::OwnerRead,
            "CloneOwner" => ObsOp::CloneOwner,
            "DropOwner" => ObsOp::DropOwner(n()?),
            "Downgrade" => ObsOp::Downgrade,
            "Upgrade" => ObsOp::Upgrade(n()?),
            "CloneWeak" => ObsOp::CloneWeak(n()?),
            "DropWeak" => ObsOp::DropWeak(n()?),
            "IntoShared" => ObsOp::IntoShared,
            "Subscribe" => ObsOp::Subscribe,
            "SubscribeReset" => ObsOp::SubscribeReset,
            "Poll" => ObsOp::Poll(n()?),
            "PollOtherWaker" => ObsOp::PollOtherWaker(n()?),
            "NextNow" => ObsOp::NextNow(n()?),
            "NextRefNow" => ObsOp::NextRefNow(n()?),
            "Get" => ObsOp::Get(n()?),
            "Read" => ObsOp::Read(n()?),
            "Reset" => ObsOp::Reset(n()?),
            "CloneSub" => ObsOp::CloneSub(n()?),
            "CloneReset" => ObsOp::CloneReset(n()?),
            "DropSub" => ObsOp::DropSub(n()?),
            _ => return None,
        })
    }
    pub fn kind(&self) -> &'static str {
        match self {
            ObsOp::Set(_) => "Set",
            ObsOp::SetIfNotEq(_) => "SetIfNotEq",
            ObsOp::SetIfHashNotEq(_) => "SetIfHashNotEq",
            ObsOp::Update => "Update",
            ObsOp::UpdateIf(_) => "UpdateIf",
            ObsOp::Take => "Take",
            ObsOp::GuardSet(_) => "GuardSet",
            ObsOp::GuardSetIfNotEq(_) => "GuardSetIfNotEq",
            ObsOp::GuardUpdateIf(_) => "GuardUpdateIf",
            ObsOp::OwnerGet => "OwnerGet",
            ObsOp::OwnerRead => "OwnerRead",
            ObsOp::CloneOwner => "CloneOwner",
            ObsOp::DropOwner(_) => "DropOwner",
            ObsOp::Downgrade => "Downgrade",
            ObsOp::Upgrade(_) => "Upgrade",
            ObsOp::CloneWeak(_) => "CloneWeak",
            ObsOp::DropWeak(_) => "DropWeak",
            ObsOp::IntoShared => "IntoShared",
            ObsOp::Subscribe => "Subscribe",
            ObsOp::SubscribeReset => "SubscribeReset",
            ObsOp::Poll(_) => "Poll",
            ObsOp::PollOtherWaker(_) => "PollOtherWaker",
            ObsOp::NextNow(_) => "NextNow",
            ObsOp::NextRefNow(_) => "NextRefNow",
            ObsOp::Get(_) => "Get",
            ObsOp::Read(_) => "Read",
            ObsOp::Reset(_) => "Reset",
            ObsOp::CloneSub(_) => "CloneSub",
            ObsOp::CloneReset(_) => "CloneReset",
            ObsOp::DropSub(_) => "DropSub",
        }
    }
}

/// poll a future exactly once; in the sequential histories used here nothing ever has to wait
fn now<F: Future>(f: F) -> F::Output {
    let fl = Flag::new();
    let w = flag_waker(&fl);
    let mut cx = Context::from_waker(&w);
    let mut f = std::pin::pin!(f);
    match f.as_mut().poll(&mut cx) {
        Poll::Ready(v) => v,
        Poll::Pending => panic!("future pending although no lock is held"),
    }
}

// ---------------------------------------------------------------- the two (three) systems under test
pub trait Sys {
    const NAME: &'static str;
    fn new(v: Val, unique: bool) -> Self;
    fn is_unique(&self) -> bool;
    fn into_shared(&mut self);
    fn owners(&self) -> usize;
    fn set(&mut self, v: Val) -> Val;
    fn set_if_not_eq(&mut self, v: Val) -> Option<Val>;
    fn set_if_hash_not_eq(&mut self, v: Val) -> Option<Val>;
    fn update(&mut self, tag: u32);
    fn update_if(&mut self, tag: u32, b: bool);
    fn take(&mut self) -> Val;
    fn guard_set(&mut self, v: Val) -> Val;
    fn guard_set_if_not_eq(&mut self, v: Val) -> Option<Val>;
    fn guard_update_if(&mut self, tag: u32, b: bool);
    fn owner_get(&self) -> Val;
    fn owner_read(&self) -> Val;
    fn clone_owner(&mut self);
    fn drop_owner(&mut self, i: usize);
    fn downgrade(&mut self);
    fn upgrade(&mut self, w: usize) -> bool;
    fn clone_weak(&mut self, w: usize);
    fn drop_weak(&mut self, w: usize);
    fn subscribe(&mut self, reset: bool);
    fn poll(&mut self, s: usize, other: bool) -> Poll<Option<Val>>;
    fn next_now(&mut self, s: usize) -> Val;
    fn next_ref_now(&mut self, s: usize) -> Val;
    fn get(&self, s: usize) -> Val;
    fn read(&self, s: usize) -> Val;
    fn reset(&mut self, s: usize);
    fn clone_sub(&mut self, s: usize, reset: bool);
    fn drop_sub(&mut self, s: usize);
    fn flag(&self, s: usize, other: bool) -> bool;
    fn clear_flags(&mut self, s: usize);
    /// (observable_count, subscriber_count, strong_count, weak_count) as reported by owner i
    fn counts(&self, i: usize) -> (usize, usize, usize, usize);
}

pub struct SyncSys {
    uniq: Option<Observable<Val>>,
    owners: Vec<SharedObservable<Val>>,
    weaks: Vec<WeakObservable<Val>>,
    subs: Vec<(Subscriber<Val>, Arc<Flag>, Arc<Flag>)>,
}
impl Sys for SyncSys {
    const NAME: &'static str = "sync";
    fn new(v: Val, unique: bool) -> Self {
        if unique {
            SyncSys { uniq: Some(Observable::new(v)), owners: vec![], weaks: vec![], subs: vec![] }
        } else {
            SyncSys { uniq: None, owners: vec![SharedObservable::new(v)], weaks: vec![], subs: vec![] }
        }
    }
    fn is_unique(&self) -> bool {
        self.uniq.is_some()
    }
    fn into_shared(&mut self) {
        let u = self.uniq.take().unwrap();
        self.owners.push(Observable::into_shared(u));
    }
    fn owners(&self) -> usize {
        self.owners.len() + self.uniq.is_some() as usize
    }
    fn set(&mut self, v: Val) -> Val {
        match &mut self.uniq {
            Some(u) => Observable::set(u, v),
            None => self.owners.last().unwrap().set(v),
        }
    }
    fn set_if_not_eq(&mut self, v: Val) -> Option<Val> {
        match &mut self.uniq {
            Some(u) => Observable::set_if_not_eq(u, v),
            None => self.owners.last().unwrap().set_if_not_eq(v),
        }
    }
    fn set_if_hash_not_eq(&mut self, v: Val) -> Option<Val> {
        match &mut self.uniq {
            Some(u) => Observable::set_if_hash_not_eq(u, v),
            None => self.owners.last().unwrap().set_if_hash_not_eq(v),
        }
    }
    fn update(&mut self, tag: u32) {
        match &mut self.uniq {
            Some(u) => Observable::update(u, |x| x.tag = tag),
            None => self.owners.last().unwrap().update(|x| x.tag = tag),
        }
    }
    fn update_if(&mut self, tag: u32, b: bool) {
        let f = |x: &mut Val| {
            x.tag = tag;
            b
        };
        match &mut self.uniq {
            Some(u) => Observable::update_if(u, f),
            None => self.owners.last().unwrap().update_if(f),
        }
    }
    fn take(&mut self) -> Val {
        match &mut self.uniq {
            Some(u) => Observable::take(u),
            None => self.owners.last().unwrap().take(),
        }
    }
    fn guard_set(&mut self, v: Val) -> Val {
        let mut g = self.owners.last().unwrap().write();
        eyeball::ObservableWriteGuard::set(&mut g, v)
    }
    fn guard_set_if_not_eq(&mut self, v: Val) -> Option<Val> {
        let mut g = self.owners.last().unwrap().write();
        eyeball::ObservableWriteGuard::set_if_not_eq(&mut g, v)
    }
    fn guard_update_if(&mut self, tag: u32, b: bool) {
        let mut g = self.owners.last().unwrap().write();
        eyeball::ObservableWriteGuard::update_if(&mut g, |x| {
            x.tag = tag;
            b
        })
    }
    fn owner_get(&self) -> Val {
        match &self.uniq {
            Some(u) => Observable::get(u).clone(),
            None => self.owners.last().unwrap().get(),
        }
    }
    fn owner_read(&self) -> Val {
        match &self.uniq {
            Some(u) => (**u).clone(),
            None => self.owners.last().unwrap().read().clone(),
        }
    }
    fn clone_owner(&mut self) {
        let c = self.owners.last().unwrap().clone();
        self.owners.push(c);
    }
    fn drop_owner(&mut self, i: usize) {
        if self.uniq.is_some() {
            self.uniq = None;
        } else {
            drop(self.owners.remove(i));
        }
    }
    fn downgrade(&mut self) {
        let w = self.owners.last().unwrap().downgrade();
        self.weaks.push(w);
    }
    fn upgrade(&mut self, w: usize) -> bool {
        match self.weaks[w].upgrade() {
            Some(o) => {
                self.owners.push(o);
                true
            }
            None => false,
        }
    }
    fn clone_weak(&mut self, w: usize) {
        let c = self.weaks[w].clone();
        self.weaks.push(c);
    }
    fn drop_weak(&mut self, w: usize) {
        drop(self.weaks.remove(w));
    }
    fn subscribe(&mut self, reset: bool) {
        let s = match (&self.uniq, reset) {
            (Some(u), false) => Observable::subscribe(u),
            (Some(u), true) => Observable::subscribe_reset(u),
            (None, false) => self.owners.last().unwrap().subscribe(),
            (None, true) => self.owners.last().unwrap().subscribe_reset(),
        };
        self.subs.push((s, Flag::new(), Flag::new()));
    }
    fn poll(&mut self, s: usize, other: bool) -> Poll<Option<Val>> {
        let (sub, f1, f2) = &mut self.subs[s];
        let w = flag_waker(if other { f2 } else { f1 });
        let mut cx = Context::from_waker(&w);
        Pin::new(sub).poll_next(&mut cx)
    }
    fn next_now(&mut self, s: usize) -> Val {
        self.subs[s].0.next_now()
    }
    fn next_ref_now(&mut self, s: usize) -> Val {
        self.subs[s].0.next_ref_now().clone()
    }
    fn get(&self, s: usize) -> Val {
        self.subs[s].0.get()
    }
    fn read(&self, s: usize) -> Val {
        self.subs[s].0.read().clone()
    }
    fn reset(&mut self, s: usize) {
        self.subs[s].0.reset()
    }
    fn clone_sub(&mut self, s: usize, reset: bool) {
        let c = if reset { self.subs[s].0.clone_reset() } else { self.subs[s].0.clone() };
        self.subs.push((c, Flag::new(), Flag::new()));
    }
    fn drop_sub(&mut self, s: usize) {
        drop(self.subs.remove(s));
    }
    fn flag(&self, s: usize, other: bool) -> bool {
        if other {
            self.subs[s].2.is_set()
        } else {
            self.subs[s].1.is_set()
        }
    }
    fn clear_flags(&mut self, s: usize) {
        self.subs[s].1.take();
        self.subs[s].2.take();
    }
    fn counts(&self, i: usize) -> (usize, usize, usize, usize) {
        match &self.uniq {
            Some(u) => (1, Observable::subscriber_count(u), 1 + Observable::subscriber_count(u), 0),
            None => {
                let o = &self.owners[i];
                (o.observable_count(), o.subscriber_count(), o.strong_count(), o.weak_count())
            }
        }
    }
}

pub struct AsyncSys {
    uniq: Option<Observable<Val, AsyncLock>>,
    owners: Vec<SharedObservable<Val, AsyncLock>>,
    weaks: Vec<WeakObservable<Val, AsyncLock>>,
    subs: Vec<(Subscriber<Val, AsyncLock>, Arc<Flag>, Arc<Flag>)>,
}
impl Sys for AsyncSys {
    const NAME: &'static str = "async-lock";
    fn new(v: Val, unique: bool) -> Self {
        if unique {
            AsyncSys { uniq: Some(Observable::new_async(v)), owners: vec![], weaks: vec![], subs: vec![] }
        } else {
            AsyncSys { uniq: None, owners: vec![SharedObservable::new_async(v)], weaks: vec![], subs: vec![] }
        }
    }
    fn is_unique(&self) -> bool {
        self.uniq.is_some()
    }
    fn into_shared(&mut self) {
        let u = self.uniq.take().unwrap();
        self.owners.push(Observable::into_shared(u));
    }
    fn owners(&self) -> usize {
        self.owners.len() + self.uniq.is_some() as usize
    }
    fn set(&mut self, v: Val) -> Val {
        match &mut self.uniq {
            Some(u) => now(Observable::set_async(u, v)),
            None => now(self.owners.last().unwrap().set(v)),
        }
    }
    fn set_if_not_eq(&mut self, v: Val) -> Option<Val> {
        match &mut self.uniq {
            Some(u) => now(Observable::set_if_not_eq_async(u, v)),
            None => now(self.owners.last().unwrap().set_if_not_eq(v)),
        }
    }
    fn set_if_hash_not_eq(&mut self, v: Val) -> Option<Val> {
        match &mut self.uniq {
            Some(u) => now(Observable::set_if_hash_not_eq_async(u, v)),
            None => now(self.owners.last().unwrap().set_if_hash_not_eq(v)),
        }
    }
    fn update(&mut self, tag: u32) {
        match &mut self.uniq {
            Some(u) => now(Observable::update_async(u, |x| x.tag = tag)),
            None => now(self.owners.last().unwrap().update(|x| x.tag = tag)),
        }
    }
    fn update_if(&mut self, tag: u32, b: bool) {
        let f = |x: &mut Val| {
            x.tag = tag;
            b
        };
        match &mut self.uniq {
            Some(u) => now(Observable::update_if_async(u, f)),
            None => now(self.owners.last().unwrap().update_if(f)),
        }
    }
    fn take(&mut self) -> Val {
        match &mut self.uniq {
            Some(u) => now(Observable::take_async(u)),
            None => now(self.owners.last().unwrap().take()),
        }
    }
    fn guard_set(&mut self, v: Val) -> Val {
        let mut g = now(self.owners.last().unwrap().write());
        eyeball::ObservableWriteGuard::set(&mut g, v)
    }
    fn guard_set_if_not_eq(&mut self, v: Val) -> Option<Val> {
        let mut g = now(self.owners.last().unwrap().write());
        eyeball::ObservableWriteGuard::set_if_not_eq(&mut g, v)
    }
    fn guard_update_if(&mut self, tag: u32, b: bool) {
        let mut g = now(self.owners.last().unwrap().write());
        eyeball::ObservableWriteGuard::update_if(&mut g, |x| {
            x.tag = tag;
            b
        })
    }
    fn owner_get(&self) -> Val {
        match &self.uniq {
            Some(u) => Observable::get_async(u).clone(),
            None => now(self.owners.last().unwrap().get()),
        }
    }
    fn owner_read(&self) -> Val {
        match &self.uniq {
            Some(u) => Observable::get_async(u).clone(),
            None => now(self.owners.last().unwrap().read()).clone(),
        }
    }
    fn clone_owner(&mut self) {
        let c = self.owners.last().unwrap().clone();
        self.owners.push(c);
    }
    fn drop_owner(&mut self, i: usize) {
        if self.uniq.is_some() {
            self.uniq = None;
        } else {
            drop(self.owners.remove(i));
        }
    }
    fn downgrade(&mut self) {
        let w = self.owners.last().unwrap().downgrade();
        self.weaks.push(w);
    }
    fn upgrade(&mut self, w: usize) -> bool {
        match self.weaks[w].upgrade() {
            Some(o) => {
                self.owners.push(o);
                true
            }
            None => false,
        }
    }
    fn clone_weak(&mut self, w: usize) {
        let c = self.weaks[w].clone();
        self.weaks.push(c);
    }
    fn drop_weak(&mut self, w: usize) {
        drop(self.weaks.remove(w));
    }
    fn subscribe(&mut self, reset: bool) {
        let s = match (&self.uniq, reset) {
            (Some(u), false) => Observable::subscribe_async(u),
            (Some(u), true) => Observable::subscribe_reset_async(u),
            (None, false) => now(self.owners.last().unwrap().subscribe()),
            (None, true) => self.owners.last().unwrap().subscribe_reset(),
        };
        self.subs.push((s, Flag::new(), Flag::new()));
    }
    fn poll(&mut self, s: usize, other: bool) -> Poll<Option<Val>> {
        let (sub, f1, f2) = &mut self.subs[s];
        let w = flag_waker(if other { f2 } else { f1 });
        let mut cx = Context::from_waker(&w);
        Pin::new(sub).poll_next(&mut cx)
    }
    fn next_now(&mut self, s: usize) -> Val {
        now(self.subs[s].0.next_now())
    }
    fn next_ref_now(&mut self, s: usize) -> Val {
        now(self.subs[s].0.next_ref_now()).clone()
    }
    fn get(&self, s: usize) -> Val {
        now(self.subs[s].0.get())
    }
    fn read(&self, s: usize) -> Val {
        now(self.subs[s].0.read()).clone()
    }
    fn reset(&mut self, s: usize) {
        self.subs[s].0.reset()
    }
    fn clone_sub(&mut self, s: usize, reset: bool) {
        let c = if reset { self.subs[s].0.clone_reset() } else { self.subs[s].0.clone() };
        self.subs.push((c, Flag::new(), Flag::new()));
    }
    fn drop_sub(&mut self, s: usize) {
        drop(self.subs.remove(s));
    }
    fn flag(&self, s: usize, other: bool) -> bool {
        if other {
            self.subs[s].2.is_set()
        } else {
            self.subs[s].1.is_set()
        }
    }
    fn clear_flags(&mut self, s: usize) {
        self.subs[s].1.take();
        self.subs[s].2.take();
    }
    fn counts(&self, i: usize) -> (usize, usize, usize, usize) {
        match &self.uniq {
            Some(u) => (1, Observable::subscriber_count(u), 1 + Observable::subscriber_count(u), 0),
            None => {
                let o = &self.owners[i];
                (o.observable_count(), o.subscriber_count(), o.strong_count(), o.weak_count())
            }
        }
    }
}

// ---------------------------------------------------------------- model
#[derive(Clone, Debug)]
pub struct SubM {
    observed: u64,
    /// wakers handed to polls that returned Pending and have not been consumed by a wake yet: (first, other)
    parked: (bool, bool),
}
#[derive(Clone, Debug)]
pub struct Model {
    pub val: Val,
    pub version: u64,
    pub closed: bool,
    pub unique: bool,
    pub owners: usize,
    pub weaks: usize,
    pub subs: Vec<SubM>,
    pub fresh: u32,
}
impl Model {
    pub fn new(unique: bool) -> Model {
        Model { val: Val { key: 0, tag: 0 }, version: 1, closed: false, unique, owners: 1, weaks: 0, subs: vec![], fresh: 1 }
    }
    fn tag(&mut self) -> u32 {
        let t = self.fresh;
        self.fresh += 1;
        t
    }
}

#[derive(Clone, Debug)]
pub struct ObsFailure {
    pub property: &'static str,
    pub classification: String,
    pub what: String,
    pub step: usize,
    pub expected: String,
    pub observed: String,
}

/// the ops that make sense in the given model state (bounded by max handles)
pub fn enabled(m: &Model, max_owners: usize, max_subs: usize, max_weaks: usize) -> Vec<ObsOp> {
    let mut v = Vec::new();
    if m.owners > 0 {
        for k in 0..2u8 {
            v.push(ObsOp::Set(k));
            v.push(ObsOp::SetIfNotEq(k));
            v.push(ObsOp::SetIfHashNotEq(k));
        }
        v.push(ObsOp::Update);
        v.push(ObsOp::UpdateIf(true));
        v.push(ObsOp::UpdateIf(false));
        v.push(ObsOp::Take);
        v.push(ObsOp::OwnerGet);
        v.push(ObsOp::OwnerRead);
        if !m.unique {
            v.push(ObsOp::GuardSet(1));
            v.push(ObsOp::GuardSetIfNotEq(0));
            v.push(ObsOp::GuardUpdateIf(false));
            if m.owners < max_owners {
                v.push(ObsOp::CloneOwner);
            }
            if m.weaks < max_weaks {
                v.push(ObsOp::Downgrade);
            }
        } else {
            v.push(ObsOp::IntoShared);
        }
        if m.subs.len() < max_subs {
            v.push(ObsOp::Subscribe);
            v.push(ObsOp::SubscribeReset);
        }
        v.push(ObsOp::DropOwner(0));
        if m.owners > 1 {
            v.push(ObsOp::DropOwner(m.owners - 1));
        }
    }
    for w in 0..m.weaks {
        if m.owners < max_owners {
            v.push(ObsOp::Upgrade(w));
        }
        if w == 0 {
            v.push(ObsOp::DropWeak(w));
            if m.weaks < max_weaks {
                v.push(ObsOp::CloneWeak(w));
            }
        }
    }
    for s in 0..m.subs.len() {
        v.push(ObsOp::Poll(s));
        v.push(ObsOp::PollOtherWaker(s));
        v.push(ObsOp::NextNow(s));
        v.push(ObsOp::NextRefNow(s));
        v.push(ObsOp::Get(s));
        v.push(ObsOp::Read(s));
        v.push(ObsOp::Reset(s));
        if m.subs.len() < max_subs {
            v.push(ObsOp::CloneSub(s));
            v.push(ObsOp::CloneReset(s));
        }
        v.push(ObsOp::DropSub(s));
    }
    v
}

/// applies `op` to the model only (used by the enumerator to know the next state)
pub fn model_step(m: &mut Model, op: &ObsOp) {
    let mut notify = false;
    match op {
        ObsOp::Set(k) | ObsOp::GuardSet(k) => {
            let t = m.tag();
            m.val = Val { key: *k, tag: t };
            notify = true;
        }
        ObsOp::SetIfNotEq(k) | ObsOp::SetIfHashNotEq(k) | ObsOp::GuardSetIfNotEq(k) => {
            let t = m.tag();
            if m.val.key != *k {
                m.val = Val { key: *k, tag: t };
                notify = true;
            }
        }
        ObsOp::Update => {
            let t = m.tag();
            m.val.tag = t;
            notify = true;
        }
        ObsOp::UpdateIf(b) | ObsOp::GuardUpdateIf(b) => {
            let t = m.tag();
            m.val.tag = t;
            notify = *b;
        }
        ObsOp::Take => {
            m.val = Val::default();
            notify = true;
        }
        ObsOp::OwnerGet | ObsOp::OwnerRead => {}
        ObsOp::CloneOwner => m.owners += 1,
        ObsOp::DropOwner(_) => {
            m.owners -= 1;
            if m.owners == 0 {
                m.closed = true;
                for s in m.subs.iter_mut() {
                    s.parked = (false, false);
                }
            }
        }
        ObsOp::Downgrade | ObsOp::CloneWeak(_) => m.weaks += 1,
        ObsOp::DropWeak(_) => m.weaks -= 1,
        ObsOp::Upgrade(_) => {
            if m.owners > 0 {
                m.owners += 1;
            }
        }
        ObsOp::IntoShared => m.unique = false,
        ObsOp::Subscribe => m.subs.push(SubM { observed: m.version, parked: (false, false) }),
        ObsOp::SubscribeReset => m.subs.push(SubM { observed: 0, parked: (false, false) }),
        ObsOp::Poll(s) | ObsOp::PollOtherWaker(s) => {
            let other = matches!(op, ObsOp::PollOtherWaker(_));
            if m.closed {
            } else if m.subs[*s].observed < m.version {
                m.subs[*s].observed = m.version;
            } else if other {
                m.subs[*s].parked.1 = true;
            } else {
                m.subs[*s].parked.0 = true;
            }
        }
        ObsOp::NextNow(s) | ObsOp::NextRefNow(s) => m.subs[*s].observed = m.version,
        ObsOp::Get(_) | ObsOp::Read(_) => {}
        ObsOp::Reset(s) => m.subs[*s].observed = 0,
        ObsOp::CloneSub(s) => {
            let o = m.subs[*s].observed;
            m.subs.push(SubM { observed: o, parked: (false, false) })
        }
        ObsOp::CloneReset(_) => m.subs.push(SubM { observed: 0, parked: (false, false) }),
        ObsOp::DropSub(s) => {
            m.subs.remove(*s);
        }
    }
    if notify {
        m.version += 1;
        for s in m.subs.iter_mut() {
            s.parked = (false, false);
        }
    }
}

pub fn run_history<S: Sys>(unique: bool, ops: &[ObsOp], follow_upgrade: bool) -> Option<ObsFailure> {
    let mut m = Model::new(unique);
    let mut sys = S::new(Val { key: 0, tag: 0 }, unique);
    macro_rules! fail {
        ($prop:expr, $op:expr, $what:expr, $step:expr, $exp:expr, $obs:expr) => {
            return Some(ObsFailure { property: $prop, classification: format!("{}/{}", S::NAME, $op.kind()), what: $what.to_string(), step: $step, expected: $exp, observed: $obs })
        };
    }
    for (step, op) in ops.iter().enumerate() {
        let before = m.clone();
        let parked_before: Vec<(bool, bool)> = m.subs.iter().map(|s| s.parked).collect();
        model_step(&mut m, op);
        let notified = m.version != before.version;
        let closed_now = m.closed && !before.closed;
        // ---- perform on the real system and compare results (C01)
        match op {
            ObsOp::Set(k) => {
                let r = sys.set(Val { key: *k, tag: m.val.tag });
                if !same(&r, &before.val) {
                    fail!("C01", op, "set did not return the previous value", step, format!("{:?}", before.val), format!("{:?}", r));
                }
            }
            ObsOp::GuardSet(k) => {
                let r = sys.guard_set(Val { key: *k, tag: m.val.tag });
                if !same(&r, &before.val) {
                    fail!("C01", op, "write guard set did not return the previous value", step, format!("{:?}", before.val), format!("{:?}", r));
                }
            }
            ObsOp::SetIfNotEq(k) | ObsOp::SetIfHashNotEq(k) | ObsOp::GuardSetIfNotEq(k) => {
                let nv = Val { key: *k, tag: before.fresh };
                let r = match op {
                    ObsOp::SetIfNotEq(_) => sys.set_if_not_eq(nv),
                    ObsOp::SetIfHashNotEq(_) => sys.set_if_hash_not_eq(nv),
                    _ => sys.guard_set_if_not_eq(nv),
                };
                let exp = if before.val.key != *k { Some(before.val.clone()) } else { None };
                let ok = match (&r, &exp) {
                    (Some(a), Some(b)) => same(a, b),
                    (None, None) => true,
                    _ => false,
                };
                if !ok {
                    fail!("C01", op, "conditional setter returned the wrong result", step, format!("{:?}", exp), format!("{:?}", r));
                }
            }
            ObsOp::Update => sys.update(m.val.tag),
            ObsOp::UpdateIf(b) => sys.update_if(m.val.tag, *b),
            ObsOp::GuardUpdateIf(b) => sys.guard_update_if(m.val.tag, *b),
            ObsOp::Take => {
                let r = sys.take();
                if !same(&r, &before.val) {
                    fail!("C01", op, "take did not return the previous value", step, format!("{:?}", before.val), format!("{:?}", r));
                }
            }
            ObsOp::OwnerGet => {
                let r = sys.owner_get();
                if !same(&r, &m.val) {
                    fail!("C01", op, "owner get does not return the value most recently stored", step, format!("{:?}", m.val), format!("{:?}", r));
                }
            }
            ObsOp::OwnerRead => {
                let r = sys.owner_read();
                if !same(&r, &m.val) {
                    fail!("C01", op, "owner read does not return the value most recently stored", step, format!("{:?}", m.val), format!("{:?}", r));
                }
            }
            ObsOp::CloneOwner => sys.clone_owner(),
            ObsOp::DropOwner(i) => sys.drop_owner(*i),
            ObsOp::Downgrade => sys.downgrade(),
            ObsOp::CloneWeak(w) => sys.clone_weak(*w),
            ObsOp::DropWeak(w) => sys.drop_weak(*w),
            ObsOp::Upgrade(w) => {
                let r = sys.upgrade(*w);
                if r != (before.owners > 0) {
                    if !follow_upgrade {
                        fail!("C03", op, "WeakObservable::upgrade must succeed exactly while an owner exists", step, format!("{}", before.owners > 0), format!("{}", r));
                    }
                    // counts focus (C19): keep going with what the library did, the counts must still add up
                    if r {
                        m.owners += 1;
                    } else {
                        m.owners -= 1;
                    }
                }
            }
            ObsOp::IntoShared => sys.into_shared(),
            ObsOp::Subscribe => sys.subscribe(false),
            ObsOp::SubscribeReset => sys.subscribe(true),
            ObsOp::Poll(s) | ObsOp::PollOtherWaker(s) => {
                let other = matches!(op, ObsOp::PollOtherWaker(_));
                let was_parked = parked_before[*s];
                // a stream must not become ready without the parked waker(s) having been woken
                let exp: Poll<Option<Val>> = if before.closed {
                    Poll::Ready(None)
                } else if before.subs[*s].observed < before.version {
                    Poll::Ready(Some(before.val.clone()))
                } else {
                    Poll::Pending
                };
                let r = sys.poll(*s, other);
                let ok = match (&r, &exp) {
                    (Poll::Ready(Some(a)), Poll::Ready(Some(b))) => same(a, b),
                    (Poll::Ready(None), Poll::Ready(None)) => true,
                    (Poll::Pending, Poll::Pending) => true,
                    _ => false,
                };
                if !ok {
                    let prop = if matches!(exp, Poll::Ready(Some(_))) && matches!(r, Poll::Ready(None)) {
                        "C03+C01" // ended while an owner exists, and the unobserved update is not handed out
                    } else if matches!(exp, Poll::Ready(None)) || matches!(r, Poll::Ready(None)) {
                        "C03"
                    } else {
                        "C01"
                    };
                    fail!(prop, op, "poll result differs from the reference (ready exactly on an unobserved notifying update; None exactly when every owner is gone)", step, format!("{:?}", exp), format!("{:?}", r));
                }
                let _ = was_parked;
                if matches!(r, Poll::Pending) {
                    // registration is checked when the next notifying update / close happens
                } else {
                    sys.clear_flags(*s);
                }
            }
            ObsOp::NextNow(s) | ObsOp::NextRefNow(s) | ObsOp::Get(s) | ObsOp::Read(s) => {
                let r = match op {
                    ObsOp::NextNow(_) => sys.next_now(*s),
                    ObsOp::NextRefNow(_) => sys.next_ref_now(*s),
                    ObsOp::Get(_) => sys.get(*s),
                    _ => sys.read(*s),
                };
                if !same(&r, &m.val) {
                    fail!("C01", op, "a subscriber handed out a value that is not the one most recently stored", step, format!("{:?}", m.val), format!("{:?}", r));
                }
            }
            ObsOp::Reset(s) => sys.reset(*s),
            ObsOp::CloneSub(s) => sys.clone_sub(*s, false),
            ObsOp::CloneReset(s) => sys.clone_sub(*s, true),
            ObsOp::DropSub(s) => sys.drop_sub(*s),
        }
        // ---- C02: every parked waker is woken by a notifying update and by the close; nobody is woken otherwise needlessly lost
        if notified || closed_now {
            for (s, p) in parked_before.iter().enumerate() {
                if s >= m.subs.len() {
                    continue;
                }
                if p.0 && !sys.flag(s, false) {
                    fail!("C02", op, "a subscriber whose poll returned Pending was not woken by the next notifying update / by the close", step, format!("waker of subscriber {} woken", s), "not woken".into());
                }
                if p.1 && !sys.flag(s, true) {
                    fail!("C02", op, "the waker of a later Pending poll (another waker) was not woken by the next notifying update / by the close", step, format!("second waker of subscriber {} woken", s), "not woken".into());
                }
            }
            for s in 0..m.subs.len() {
                sys.clear_flags(s);
            }
        }
        // ---- C19 counts, as reported by every owner (not when the run is focused on a property the counts say nothing
        // about: a history stops at its first failure, and a count mismatch must not hide what happens afterwards)
        let counts_in_focus = !matches!(crate::scenario::FOCUS.get().and_then(|f| f.as_deref()), Some("C01") | Some("C02") | Some("C03") | Some("C20"));
        for i in 0..(if counts_in_focus { sys.owners().min(if m.unique { 1 } else { m.owners }) } else { 0 }) {
            let (oc, sc, st, wk) = sys.counts(i);
            let exp = (m.owners, m.subs.len(), m.owners + m.subs.len(), m.weaks);
            if (oc, sc, st, wk) != exp {
                fail!("C19", op, "handle counts (observable_count, subscriber_count, strong_count, weak_count) are not exact", step, format!("{:?}", exp), format!("{:?}", (oc, sc, st, wk)));
            }
        }
    }
    None
}

// ---------------------------------------------------------------- the last owner is dropped while a panic unwinds (C03, C02)
/// The owner (unique Observable, or the only SharedObservable) is dropped by the unwinding of a panic; the subscriber that
/// was pending must be woken and must see the end of the stream, exactly as after an ordinary drop.
pub fn run_unwind_drop(is_async: bool, unique: bool, polled_before: bool) -> Option<ObsFailure> {
    let cls = format!("{}/drop-while-unwinding:{}", if is_async { "async-lock" } else { "sync" }, if unique { "unique" } else { "shared" });
    let fl = Flag::new();
    let w = flag_waker(&fl);
    let mut cx = Context::from_waker(&w);
    macro_rules! body {
        ($owner:expr, $sub:expr) => {{
            let owner = $owner;
            let mut sub = $sub;
            if polled_before {
                let r = Pin::new(&mut sub).poll_next(&mut cx);
                if !matches!(r, Poll::Pending) {
                    return Some(ObsFailure { property: "C01", classification: cls, what: "a fresh subscriber is not pending".into(), step: 0, expected: "Pending".into(), observed: format!("{:?}", r) });
                }
            }
            let res = std::panic::catch_unwind(std::panic::AssertUnwindSafe(move || {
                let _o = owner;
                panic!("unwinding with the owner on the stack");
            }));
            assert!(res.is_err());
            if polled_before && !fl.is_set() {
                return Some(ObsFailure { property: "C02+C03", classification: cls, what: "the owner was dropped by an unwinding panic and the pending subscriber was not woken".into(), step: 1, expected: "woken".into(), observed: "not woken".into() });
            }
            let r = Pin::new(&mut sub).poll_next(&mut cx);
            if !matches!(r, Poll::Ready(None)) {
                return Some(ObsFailure { property: "C03", classification: cls, what: "the owner was dropped by an unwinding panic and the subscriber does not see the end of the stream".into(), step: 2, expected: "Ready(None)".into(), observed: format!("{:?}", r) });
            }
            None
        }};
    }
    let v = Val { key: 0, tag: 0 };
    match (is_async, unique) {
        (false, true) => {
            let o = Observable::new(v);
            let s = Observable::subscribe(&o);
            body!(o, s)
        }
        (false, false) => {
            let o = SharedObservable::new(v);
            let s = o.subscribe();
            body!(o, s)
        }
        (true, true) => {
            let o = Observable::<Val, AsyncLock>::new_async(v);
            let s = Observable::subscribe_async(&o);
            body!(o, s)
        }
        (true, false) => {
            let o = SharedObservable::<Val, AsyncLock>::new_async(v);
            let s = now(o.subscribe());
            body!(o, s)
        }
    }
}

// ---------------------------------------------------------------- the last two owners dropped at the same moment on two threads (C03, C02)
/// Stress test, NOT exhaustive and without schedule control: two threads meet at a barrier and each drops one of the last two
/// clones of a SharedObservable; a subscriber that was pending must have been woken and must see the end of the stream.
/// Returns the number of rounds in which it did not (each such round is a real failing schedule).
pub fn concurrent_last_drops(is_async: bool, rounds: usize) -> usize {
    use std::sync::Barrier;
    let mut bad = 0;
    for _ in 0..rounds {
        let barrier = Arc::new(Barrier::new(2));
        let fl = Flag::new();
        let w = flag_waker(&fl);
        let mut cx = Context::from_waker(&w);
        let (b1, b2) = (barrier.clone(), barrier.clone());
        if is_async {
            let a = SharedObservable::<Val, AsyncLock>::new_async(Val { key: 0, tag: 0 });
            let b = a.clone();
            let mut sub = now(a.subscribe());
            assert!(Pin::new(&mut sub).poll_next(&mut cx).is_pending());
            let t1 = std::thread::spawn(move || {
                b1.wait();
                drop(a)
            });
            let t2 = std::thread::spawn(move || {
                b2.wait();
                drop(b)
            });
            t1.join().unwrap();
            t2.join().unwrap();
            let ended = matches!(Pin::new(&mut sub).poll_next(&mut cx), Poll::Ready(None));
            if !ended || !fl.is_set() {
                bad += 1;
            }
        } else {
            let a = SharedObservable::new(Val { key: 0, tag: 0 });
            let b = a.clone();
            let mut sub = a.subscribe();
            assert!(Pin::new(&mut sub).poll_next(&mut cx).is_pending());
            let t1 = std::thread::spawn(move || {
                b1.wait();
                drop(a)
            });
            let t2 = std::thread::spawn(move || {
                b2.wait();
                drop(b)
            });
            t1.join().unwrap();
            t2.join().unwrap();
            let ended = matches!(Pin::new(&mut sub).poll_next(&mut cx), Poll::Ready(None));
            if !ended || !fl.is_set() {
                bad += 1;
            }
        }
    }
    bad
}

// ---------------------------------------------------------------- several operations through ONE write guard (C01)
#[derive(Clone, Debug, PartialEq, Eq, Hash)]
pub enum GOp {
    Set(u8),
    SetIfNotEq(u8),
    SetIfHashNotEq(u8),
    /// update(|x| x.tag = fresh): equality and hash unchanged
    UpdateTag,
    /// update(|x| { x.key = k; x.tag = fresh }): equality and hash change
    UpdateKey(u8),
    UpdateIf(bool),
}
impl GOp {
    pub fn kind(&self) -> &'static str {
        match self {
            GOp::Set(_) => "Set",
            GOp::SetIfNotEq(_) => "SetIfNotEq",
            GOp::SetIfHashNotEq(_) => "SetIfHashNotEq",
            GOp::UpdateTag => "UpdateTag",
            GOp::UpdateKey(_) => "UpdateKey",
            GOp::UpdateIf(_) => "UpdateIf",
        }
    }
    pub fn all() -> Vec<GOp> {
        vec![GOp::Set(0), GOp::Set(1), GOp::SetIfNotEq(0), GOp::SetIfNotEq(1), GOp::SetIfHashNotEq(0), GOp::SetIfHashNotEq(1), GOp::UpdateTag, GOp::UpdateKey(0), GOp::UpdateKey(1), GOp::UpdateIf(true), GOp::UpdateIf(false)]
    }
    pub fn parse(s: &str) -> Option<GOp> {
        GOp::all().into_iter().find(|g| format!("{:?}", g) == s.trim())
    }
}
/// One write guard on a SharedObservable (sync or async-lock), `ops` applied through it, guard dropped; every result, the
/// final value and the subscriber's readiness afterwards are compared with the same calls made one by one.
pub fn run_guard_session(is_async: bool, ops: &[GOp]) -> Option<ObsFailure> {
    let cls = |k: &str| format!("{}/guard-session:{}", if is_async { "async-lock" } else { "sync" }, k);
    macro_rules! fail {
        ($k:expr, $what:expr, $exp:expr, $obs:expr) => {
            return Some(ObsFailure { property: if is_async { "C01+C16" } else { "C01" }, classification: cls($k), what: $what.to_string(), step: 0, expected: $exp, observed: $obs })
        };
    }
    let mut val = Val { key: 0, tag: 0 };
    let mut fresh: u32 = 1;
    let mut notified = false;
    macro_rules! session {
        ($owner:expr, $sub:expr, $guard:expr) => {{
            let mut g = $guard;
            for op in ops {
                let tag = fresh;
                fresh += 1;
                match op {
                    GOp::Set(k) => {
                        let nv = Val { key: *k, tag };
                        let r = eyeball::ObservableWriteGuard::set(&mut g, nv.clone());
                        if !same(&r, &val) {
                            fail!(op.kind(), "set through a write guard did not return the previous value", format!("{:?}", val), format!("{:?}", r));
                        }
                        val = nv;
                        notified = true;
                    }
                    GOp::SetIfNotEq(k) | GOp::SetIfHashNotEq(k) => {
                        let nv = Val { key: *k, tag };
                        let r = if matches!(op, GOp::SetIfNotEq(_)) { eyeball::ObservableWriteGuard::set_if_not_eq(&mut g, nv.clone()) } else { eyeball::ObservableWriteGuard::set_if_hash_not_eq(&mut g, nv.clone()) };
                        let exp = if *k != val.key { Some(val.clone()) } else { None };
                        let ok = match (&r, &exp) {
                            (Some(a), Some(b)) => same(a, b),
                            (None, None) => true,
                            _ => false,
                        };
                        if !ok {
                            fail!(op.kind(), "a conditional setter through a write guard returned the wrong result (Some(previous) exactly when the new value differs)", format!("{:?}", exp), format!("{:?}", r));
                        }
                        if exp.is_some() {
                            val = nv;
                            notified = true;
                        }
                    }
                    GOp::UpdateTag => {
                        eyeball::ObservableWriteGuard::update(&mut g, |x| x.tag = tag);
                        val.tag = tag;
                        notified = true;
                    }
                    GOp::UpdateKey(k) => {
                        eyeball::ObservableWriteGuard::update(&mut g, |x| {
                            x.key = *k;
                            x.tag = tag
                        });
                        val = Val { key: *k, tag };
                        notified = true;
                    }
                    GOp::UpdateIf(b) => {
                        eyeball::ObservableWriteGuard::update_if(&mut g, |x| {
                            x.tag = tag;
                            *b
                        });
                        val.tag = tag;
                        if *b {
                            notified = true;
                        }
                    }
                }
                if !same(&*g, &val) {
                    fail!(op.kind(), "the value seen through the write guard is not the one most recently stored", format!("{:?}", val), format!("{:?}", &*g));
                }
            }
            drop(g);
        }};
    }
    let fl = Flag::new();
    if is_async {
        let owner = SharedObservable::<Val, AsyncLock>::new_async(val.clone());
        let mut sub = now(owner.subscribe());
        session!(owner, sub, now(owner.write()));
        let got = now(owner.get());
        if !same(&got, &val) {
            fail!("final", "after the guard was dropped the stored value is not the one most recently stored", format!("{:?}", val), format!("{:?}", got));
        }
        let w = flag_waker(&fl);
        let mut cx = Context::from_waker(&w);
        let r = Pin::new(&mut sub).poll_next(&mut cx);
        let ok = match (&r, notified) {
            (Poll::Ready(Some(v)), true) => same(v, &val),
            (Poll::Pending, false) => true,
            _ => false,
        };
        if !ok {
            fail!("readiness", "after the guard was dropped the subscriber is ready exactly when a notifying operation happened, with the latest value", if notified { format!("Ready(Some({:?}))", val) } else { "Pending".to_string() }, format!("{:?}", r));
        }
    } else {
        let owner = SharedObservable::new(val.clone());
        let mut sub = owner.subscribe();
        session!(owner, sub, owner.write());
        let got = owner.get();
        if !same(&got, &val) {
            fail!("final", "after the guard was dropped the stored value is not the one most recently stored", format!("{:?}", val), format!("{:?}", got));
        }
        let w = flag_waker(&fl);
        let mut cx = Context::from_waker(&w);
        let r = Pin::new(&mut sub).poll_next(&mut cx);
        let ok = match (&r, notified) {
            (Poll::Ready(Some(v)), true) => same(v, &val),
            (Poll::Pending, false) => true,
            _ => false,
        };
        if !ok {
            fail!("readiness", "after the guard was dropped the subscriber is ready exactly when a notifying operation happened, with the latest value", if notified { format!("Ready(Some({:?}))", val) } else { "Pending".to_string() }, format!("{:?}", r));
        }
    }
    None
}

// ---------------------------------------------------------------- async-lock flavour: operations queued behind a held guard (C16)
#[derive(Clone, Debug, PartialEq, Eq, Hash)]
pub enum QOp {
    Set(u8),
    SetIfNotEq(u8),
    SetIfHashNotEq(u8),
    Update,
    UpdateIf(bool),
    Take,
    OwnerGet,
    SubNext,    // Subscriber::next()
    SubNextNow, // Subscriber::next_now()
    SubGet,     // Subscriber::get()
    SubPoll,    // Stream::poll_next
}
impl QOp {
    pub fn parse(s: &str) -> Option<QOp> {
        let s = s.trim();
        let (name, arg) = match s.find('(') {
            Some(i) => (&s[..i], Some(&s[i + 1..s.len() - 1])),
            None => (s, None),
        };
        let n = || arg.and_then(|a| a.parse::<u8>().ok());
        Some(match name {
            "Set" => QOp::Set(n()?),
            "SetIfNotEq" => QOp::SetIfNotEq(n()?),
            "SetIfHashNotEq" => QOp::SetIfHashNotEq(n()?),
            "Update" => QOp::Update,
            "UpdateIf" => QOp::UpdateIf(arg?.parse().ok()?),
            "Take" => QOp::Take,
            "OwnerGet" => QOp::OwnerGet,
            "SubNext" => QOp::SubNext,
            "SubNextNow" => QOp::SubNextNow,
            "SubGet" => QOp::SubGet,
            "SubPoll" => QOp::SubPoll,
            _ => return None,
        })
    }
    fn is_sub(&self) -> bool {
        matches!(self, QOp::SubNext | QOp::SubNextNow | QOp::SubGet | QOp::SubPoll)
    }
}
#[derive(Clone, Debug)]
pub struct HeldScenario {
    pub pre_set: Option<u8>,   // a Set(k) before anything else
    pub subscribe: bool,       // create a subscriber (after pre_set)
    pub set_after_sub: Option<u8>, // an update the subscriber has not observed
    pub write_guard: bool,     // hold a write guard (else a read guard)
    pub queued: Vec<QOp>,
}
#[derive(Debug, Clone)]
enum QRes {
    V(Val),
    O(Option<Val>),
    U,
}
type BoxFut = Pin<Box<dyn Future<Output = QRes>>>;

pub fn run_held(sc: &HeldScenario) -> Option<ObsFailure> {
    let cls = |k: &str| format!("async-lock/held-guard:{}", k);
    macro_rules! fail {
        ($k:expr, $what:expr, $exp:expr, $obs:expr) => {
            return Some(ObsFailure { property: match $k { "lost-wakeup" => "C16+C02", "lock-leak" => "C16+C02", _ => "C16+C01" }, classification: cls($k), what: $what.to_string(), step: 0, expected: $exp, observed: $obs })
        };
    }
    // model
    let mut val = Val { key: 0, tag: 0 };
    let mut version: u64 = 1;
    let mut fresh: u32 = 1;
    let owner: &'static SharedObservable<Val, AsyncLock> = Box::leak(Box::new(SharedObservable::new_async(val.clone())));
    if let Some(k) = sc.pre_set {
        val = Val { key: k, tag: fresh };
        fresh += 1;
        version += 1;
        let _ = now(owner.set(val.clone()));
    }
    let mut observed: u64 = 0;
    let sub: Option<*mut Subscriber<Val, AsyncLock>> = if sc.subscribe {
        let s = now(owner.subscribe());
        observed = version;
        Some(Box::into_raw(Box::new(s)))
    } else {
        None
    };
    if let Some(k) = sc.set_after_sub {
        val = Val { key: k, tag: fresh };
        fresh += 1;
        version += 1;
        let _ = now(owner.set(val.clone()));
    }
    // take the guard
    enum G {
        W(eyeball::ObservableWriteGuard<'static, Val, AsyncLock>),
        R(eyeball::ObservableReadGuard<'static, Val, AsyncLock>),
    }
    let guard = if sc.write_guard { G::W(now(owner.write())) } else { G::R(now(owner.read())) };
    // queue the operations: each future is polled once
    let mut futs: Vec<(QOp, Option<BoxFut>, Arc<Flag>, Option<QRes>, Val)> = Vec::new();
    let mut sub_busy = false;
    for q in &sc.queued {
        if q.is_sub() && (sub.is_none() || sub_busy) {
            continue; // one outstanding subscriber future at a time (it borrows the subscriber mutably)
        }
        let nv = Val { key: match q { QOp::Set(k) | QOp::SetIfNotEq(k) | QOp::SetIfHashNotEq(k) => *k, _ => 0 }, tag: fresh };
        fresh += 1;
        let tag = nv.tag;
        let f: BoxFut = match q {
            QOp::Set(_) => {
                let v = nv.clone();
                Box::pin(async move { QRes::V(owner.set(v).await) })
            }
            QOp::SetIfNotEq(_) => {
                let v = nv.clone();
                Box::pin(async move { QRes::O(owner.set_if_not_eq(v).await) })
            }
            QOp::SetIfHashNotEq(_) => {
                let v = nv.clone();
                Box::pin(async move { QRes::O(owner.set_if_hash_not_eq(v).await) })
            }
            QOp::Update => Box::pin(async move {
                owner.update(|x| x.tag = tag).await;
                QRes::U
            }),
            QOp::UpdateIf(b) => {
                let b = *b;
                Box::pin(async move {
                    owner.update_if(|x| {
                        x.tag = tag;
                        b
                    })
                    .await;
                    QRes::U
                })
            }
            QOp::Take => Box::pin(async move { QRes::V(owner.take().await) }),
            QOp::OwnerGet => Box::pin(async move { QRes::V(owner.get().await) }),
            QOp::SubNext => {
                sub_busy = true;
                let s: &'static mut Subscriber<Val, AsyncLock> = unsafe { &mut *sub.unwrap() };
                Box::pin(async move { QRes::O(s.next().await) })
            }
            QOp::SubNextNow => {
                sub_busy = true;
                let s: &'static mut Subscriber<Val, AsyncLock> = unsafe { &mut *sub.unwrap() };
                Box::pin(async move { QRes::V(s.next_now().await) })
            }
            QOp::SubGet => {
                sub_busy = true;
                let s: &'static mut Subscriber<Val, AsyncLock> = unsafe { &mut *sub.unwrap() };
                Box::pin(async move { QRes::V(s.get().await) })
            }
            QOp::SubPoll => {
                sub_busy = true;
                let s: &'static mut Subscriber<Val, AsyncLock> = unsafe { &mut *sub.unwrap() };
                Box::pin(std::future::poll_fn(move |cx| Pin::new(&mut *s).poll_next(cx).map(QRes::O)))
            }
        };
        futs.push((q.clone(), Some(f), Flag::new(), None, nv));
    }
    let poll_one = |e: &mut (QOp, Option<BoxFut>, Arc<Flag>, Option<QRes>, Val)| {
        if let Some(f) = e.1.as_mut() {
            e.2.take();
            let w = flag_waker(&e.2);
            let mut cx = Context::from_waker(&w);
            if let Poll::Ready(r) = f.as_mut().poll(&mut cx) {
                e.3 = Some(r);
                e.1 = None;
            }
        }
    };
    // first poll in queue order: under a write guard everything must wait
    let mut writer_queued = false;
    for e in futs.iter_mut() {
        poll_one(e);
        let is_writer = !matches!(e.0, QOp::OwnerGet | QOp::SubNext | QOp::SubNextNow | QOp::SubGet | QOp::SubPoll);
        if e.3.is_some() && (sc.write_guard || is_writer || writer_queued) {
            fail!("not-exclusive", "an operation completed although a guard that excludes it was still held (or a writer was queued before it)", "Pending".to_string(), format!("{:?} completed: {:?}", e.0, e.3));
        }
        if is_writer {
            writer_queued = true;
        }
    }
    // release the guard: whoever can proceed must be woken
    drop(guard);
    let mut rounds = 0;
    loop {
        let mut progressed = false;
        for e in futs.iter_mut() {
            if e.1.is_some() && e.2.is_set() {
                poll_one(e);
                progressed = true;
            }
        }
        if futs.iter().all(|e| e.1.is_none()) {
            break;
        }
        rounds += 1;
        if !progressed || rounds > 100 {
            let stuck: Vec<String> = futs.iter().filter(|e| e.1.is_some()).map(|e| format!("{:?}", e.0)).collect();
            // a subscriber stream that has nothing to report legitimately stays pending
            let only_idle_sub = futs.iter().filter(|e| e.1.is_some()).all(|e| matches!(e.0, QOp::SubNext | QOp::SubPoll));
            if only_idle_sub {
                break;
            }
            fail!("lost-wakeup", "the lock was released but an operation waiting for it was never woken", "all queued operations complete".to_string(), format!("still pending, not woken: {:?}", stuck));
        }
    }
    // a subscriber future that is still pending must have nothing to report: if a poll by hand completes it now,
    // an item was available and its waker was never woken (C02)
    for e in futs.iter_mut() {
        if e.1.is_some() && !e.2.is_set() {
            poll_one(e);
            if let Some(r) = &e.3 {
                {
                    fail!("lost-wakeup", "a pending subscriber future had a result available but its waker was never woken", "woken when the result became available".to_string(), format!("{:?} completes with {:?} only when polled by hand", e.0, r));
                }
            }
        }
    }
    // no guard exists any more and every writer is done: the lock must be free (a forgotten acquisition would
    // block every later writer)
    {
        let mut probe: Pin<Box<dyn Future<Output = Val>>> = Box::pin(async move { owner.get().await });
        let fl = Flag::new();
        let w = flag_waker(&fl);
        let mut cx = Context::from_waker(&w);
        let free_r = matches!(probe.as_mut().poll(&mut cx), Poll::Ready(_));
        drop(probe);
        let mut probe_w: Pin<Box<dyn Future<Output = bool>>> = Box::pin(async move { drop(owner.write().await); true });
        let free_w = futs.iter().any(|e| e.1.is_some()) || matches!(probe_w.as_mut().poll(&mut cx), Poll::Ready(_));
        drop(probe_w);
        if !free_r || !free_w {
            fail!("lock-leak", "no guard is held and no operation is waiting, yet the lock cannot be taken: an acquisition was left behind", "lock free".to_string(), format!("read lock free: {}, write lock free: {}", free_r, free_w));
        }
    }
    // compare with the reference. Writers (and single-acquisition readers) take effect one after the other in queue
    // order. `next()` / `poll_next` of a subscriber may legitimately complete later (next() takes the lock twice and
    // a pending stream is completed by a later update): they must hand out the value that was current after some
    // position j >= their own, and must then have observed exactly that version.
    let n = futs.len();
    let mut val_after: Vec<Val> = vec![val.clone()];
    let mut ver_after: Vec<u64> = vec![version];
    for e in futs.iter() {
        let exp: Option<QRes> = match &e.0 {
            QOp::Set(_) => {
                let p = val.clone();
                val = e.4.clone();
                version += 1;
                Some(QRes::V(p))
            }
            QOp::SetIfNotEq(k) | QOp::SetIfHashNotEq(k) => {
                if val.key != *k {
                    let p = val.clone();
                    val = e.4.clone();
                    version += 1;
                    Some(QRes::O(Some(p)))
                } else {
                    Some(QRes::O(None))
                }
            }
            QOp::Update => {
                val.tag = e.4.tag;
                version += 1;
                Some(QRes::U)
            }
            QOp::UpdateIf(b) => {
                val.tag = e.4.tag;
                if *b {
                    version += 1;
                }
                Some(QRes::U)
            }
            QOp::Take => {
                let p = val.clone();
                val = Val::default();
                version += 1;
                Some(QRes::V(p))
            }
            QOp::OwnerGet | QOp::SubGet => Some(QRes::V(val.clone())),
            QOp::SubNextNow | QOp::SubNext | QOp::SubPoll => None,
        };
        if let Some(exp) = exp {
            let ok = match (&exp, &e.3) {
                (QRes::V(a), Some(QRes::V(b))) => same(a, b),
                (QRes::O(Some(a)), Some(QRes::O(Some(b)))) => same(a, b),
                (QRes::O(None), Some(QRes::O(None))) => true,
                (QRes::U, Some(QRes::U)) => true,
                _ => false,
            };
            if !ok {
                fail!("result", "operations queued behind a guard did not take effect atomically in queue order (results differ from the sequential execution in that order)", format!("{:?} -> {:?}", e.0, exp), format!("{:?}", e.3));
            }
        }
        val_after.push(val.clone());
        ver_after.push(version);
    }
    // the observed version is tracked as a set of candidates: equal values (e.g. two `take()`s both leave the default
    // value) make it ambiguous which state a subscriber future saw
    let mut cand: Vec<u64> = vec![observed];
    for (i, e) in futs.iter().enumerate() {
        match &e.0 {
            QOp::SubNextNow => {
                let ok = matches!(&e.3, Some(QRes::V(b)) if same(b, &val_after[i]));
                if !ok {
                    fail!("result", "next_now queued behind a guard did not return the value current at its turn", format!("{:?}", val_after[i]), format!("{:?}", e.3));
                }
                cand = vec![ver_after[i]];
            }
            QOp::SubNext | QOp::SubPoll => match &e.3 {
                Some(QRes::O(Some(v))) => {
                    let mut nc: Vec<u64> = Vec::new();
                    for j in i..=n {
                        if same(v, &val_after[j]) && cand.iter().any(|o| *o < ver_after[j]) && !nc.contains(&ver_after[j]) {
                            nc.push(ver_after[j]);
                        }
                    }
                    if nc.is_empty() {
                        fail!("result", "a subscriber handed out a value that was not an unobserved current value at or after its turn", format!("one of {:?} (observed version {:?})", &val_after[i..], cand), format!("{:?}", v));
                    }
                    cand = nc;
                }
                Some(QRes::O(None)) => {
                    fail!("result", "subscriber reported end of stream although the owner is alive", "Some(..) or pending".to_string(), "None".to_string());
                }
                None => {
                    if cand.iter().all(|o| *o < ver_after[n]) {
                        fail!("lost-wakeup", "a subscriber future stayed pending although an update it has not observed happened", "woken and completed".to_string(), "pending".to_string());
                    }
                }
                other => {
                    fail!("result", "unexpected result shape", "Option".to_string(), format!("{:?}", other));
                }
            },
            _ => {}
        }
    }
    drop(futs);
    // afterwards: the owner holds the final value; the subscriber has observed what it handed out
    let fin = now(owner.get());
    if !same(&fin, &val) {
        fail!("final-value", "final value differs from the sequential reference", format!("{:?}", val), format!("{:?}", fin));
    }
    if let Some(p) = sub {
        let s: &mut Subscriber<Val, AsyncLock> = unsafe { &mut *p };
        let fl = Flag::new();
        let w = flag_waker(&fl);
        let mut cx = Context::from_waker(&w);
        let r = Pin::new(&mut *s).poll_next(&mut cx);
        let may_ready = cand.iter().any(|o| *o < version);
        let may_pending = cand.iter().any(|o| *o >= version);
        let ok = match &r {
            Poll::Ready(Some(v)) => may_ready && same(v, &val),
            Poll::Pending => may_pending,
            _ => false,
        };
        if !ok {
            fail!("observed-version", "after the queued operations, the subscriber's readiness is wrong (a value it already handed out is offered again, or an unobserved update is not offered)", if may_ready && !may_pending { format!("Ready(Some({:?}))", val) } else if may_pending && !may_ready { "Pending".to_string() } else { "Ready(latest) or Pending".to_string() }, format!("{:?}", r));
        }
        unsafe { drop(Box::from_raw(p)) };
    }
    None
}
