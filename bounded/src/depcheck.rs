//! depcheck — every assumed contract of /verif/prelude that talks about a dependency is transcribed here as an
//! executable predicate and compared with the REAL crate over all small inputs (bounded sanity check of the trusted base;
//! it is not a proof of the stand-ins).
use imbl::Vector;
use std::panic::{catch_unwind, AssertUnwindSafe};

pub struct DFail {
    pub contract: String,
    pub input: String,
    pub expected: String,
    pub observed: String,
}

fn v(n: usize) -> Vector<u32> {
    (0..n as u32).collect()
}
fn s(x: &Vector<u32>) -> Vec<u32> {
    x.iter().cloned().collect()
}

pub fn run(maxn: usize) -> (usize, usize, Vec<DFail>) {
    let mut f: Vec<DFail> = Vec::new();
    let mut n_eval = 0usize;
    let mut contracts = std::collections::BTreeSet::new();
    macro_rules! check {
        ($name:expr, $input:expr, $exp:expr, $obs:expr) => {{
            n_eval += 1;
            contracts.insert($name.to_string());
            let e = $exp;
            let o = $obs;
            if e != o {
                f.push(DFail { contract: $name.to_string(), input: $input, expected: format!("{:?}", e), observed: format!("{:?}", o) });
            }
        }};
    }
    // ---------------- prelude/imbl.rs
    for n in 0..=maxn {
        let base: Vec<u32> = (0..n as u32).collect();
        check!("imbl::Vector::len", format!("len {}", n), n, v(n).len());
        check!("imbl::Vector::is_empty", format!("len {}", n), n == 0, v(n).is_empty());
        check!("imbl::Vector::clone", format!("len {}", n), base.clone(), s(&v(n).clone()));
        {
            let mut a = v(n);
            a.clear();
            check!("imbl::Vector::clear", format!("len {}", n), Vec::<u32>::new(), s(&a));
        }
        {
            let mut a = v(n);
            a.push_front(9);
            let mut e = vec![9];
            e.extend(&base);
            check!("imbl::Vector::push_front", format!("len {}", n), e, s(&a));
            let mut a = v(n);
            a.push_back(9);
            let mut e = base.clone();
            e.push(9);
            check!("imbl::Vector::push_back", format!("len {}", n), e, s(&a));
            let mut a = v(n);
            let r = a.pop_front();
            check!("imbl::Vector::pop_front", format!("len {}", n), (base.first().cloned(), base.iter().skip(1).cloned().collect::<Vec<_>>()), (r, s(&a)));
            let mut a = v(n);
            let r = a.pop_back();
            check!("imbl::Vector::pop_back", format!("len {}", n), (base.last().cloned(), base.iter().take(n.saturating_sub(1)).cloned().collect::<Vec<_>>()), (r, s(&a)));
        }
        for m in 0..=maxn {
            let mut a = v(n);
            a.append((100..100 + m as u32).collect());
            let mut e = base.clone();
            e.extend(100..100 + m as u32);
            check!("imbl::Vector::append", format!("len {} + {}", n, m), e, s(&a));
        }
        for i in 0..=n + 2 {
            // get
            check!("imbl::Vector::get", format!("len {} index {}", n, i), base.get(i).cloned(), v(n).get(i).cloned());
            // truncate: no-op when len >= self.len()
            let mut a = v(n);
            a.truncate(i);
            check!("imbl::Vector::truncate (no-op beyond the length)", format!("len {} to {}", n, i), base.iter().take(i).cloned().collect::<Vec<_>>(), s(&a));
            // insert: panics beyond the end
            let mut a = v(n);
            let r = catch_unwind(AssertUnwindSafe(|| a.insert(i, 9)));
            let mut e = base.clone();
            let exp = if i <= n {
                e.insert(i, 9);
                Some(e)
            } else {
                None
            };
            check!("imbl::Vector::insert (requires index <= len, else panic)", format!("len {} index {}", n, i), exp, r.ok().map(|_| s(&a)));
            // set
            let mut a = v(n);
            let r = catch_unwind(AssertUnwindSafe(|| a.set(i, 9)));
            let exp = if i < n {
                let mut e = base.clone();
                let old = e[i];
                e[i] = 9;
                Some((old, e))
            } else {
                None
            };
            check!("imbl::Vector::set (requires index < len, else panic)", format!("len {} index {}", n, i), exp, r.ok().map(|o| (o, s(&a))));
            // remove
            let mut a = v(n);
            let r = catch_unwind(AssertUnwindSafe(|| a.remove(i)));
            let exp = if i < n {
                let mut e = base.clone();
                let old = e.remove(i);
                Some((old, e))
            } else {
                None
            };
            check!("imbl::Vector::remove (requires index < len, else panic)", format!("len {} index {}", n, i), exp, r.ok().map(|o| (o, s(&a))));
            // split_at
            let a = v(n);
            let r = catch_unwind(AssertUnwindSafe(|| a.split_at(i)));
            let exp = if i <= n { Some((base[..i].to_vec(), base[i..].to_vec())) } else { None };
            check!("imbl::Vector::split_at (requires index <= len)", format!("len {} index {}", n, i), exp, r.ok().map(|(l, r)| (s(&l), s(&r))));
            // skip
            let a = v(n);
            let r = catch_unwind(AssertUnwindSafe(|| a.skip(i)));
            let exp = if i <= n { Some(base[i..].to_vec()) } else { Some(vec![]) };
            check!("imbl::Vector::skip (empty beyond the length)", format!("len {} count {}", n, i), exp, r.ok().map(|x| s(&x)));
            // iterator adapters (prelude/iters.rs)
            check!("iter().skip(n)", format!("len {} n {}", n, i), base.iter().skip(i).cloned().collect::<Vec<_>>(), v(n).iter().skip(i).cloned().collect::<Vec<_>>());
            check!("iter().take(n)", format!("len {} n {}", n, i), base.iter().take(i).cloned().collect::<Vec<_>>(), v(n).iter().take(i).cloned().collect::<Vec<_>>());
            check!("iter().rev().skip(n).take(m)", format!("len {} n {}", n, i), base.iter().rev().skip(i).take(2).cloned().collect::<Vec<_>>(), v(n).iter().rev().skip(i).take(2).cloned().collect::<Vec<_>>());
            check!("repeat(x).take(n)", format!("n {}", i), vec![7u32; i], std::iter::repeat(7u32).take(i).collect::<Vec<_>>());
        }
    }
    // ---------------- prelude/smallvec.rs
    {
        use smallvec::SmallVec;
        for n in 0..=maxn {
            for m in 0..=3usize {
                let mut b: SmallVec<[u32; 2]> = (0..n as u32).collect();
                b.insert_many(0, (100..100 + m as u32).rev());
                let mut e: Vec<u32> = (100..100 + m as u32).rev().collect();
                e.extend(0..n as u32);
                check!("SmallVec::insert_many(0, it)", format!("len {} + {}", n, m), e, b.to_vec());
            }
            let mut b: SmallVec<[u32; 2]> = (0..n as u32).collect();
            let r = b.pop();
            check!("SmallVec::pop", format!("len {}", n), (if n > 0 { Some(n as u32 - 1) } else { None }, (0..n.saturating_sub(1) as u32).collect::<Vec<_>>()), (r, b.to_vec()));
            let mut b: SmallVec<[u32; 2]> = (0..n as u32).collect();
            b.reverse();
            check!("SmallVec::reverse", format!("len {}", n), (0..n as u32).rev().collect::<Vec<_>>(), b.to_vec());
        }
        let mut a: arrayvec::ArrayVec<u32, 2> = arrayvec::ArrayVec::new();
        a.push(1);
        a.push(2);
        let r = catch_unwind(AssertUnwindSafe(|| a.push(3)));
        check!("ArrayVec::push (panics when full)", "capacity 2, third push".to_string(), true, r.is_err());
    }
    // ---------------- prelude/broadcast.rs + recv.rs (tokio::sync::broadcast)
    {
        use tokio::sync::broadcast::{self, error::TryRecvError};
        for cap in [1usize, 2, 3, 5] {
            let retained = cap.next_power_of_two();
            for sent in 0..=retained + 3 {
                for close in [false, true] {
                    let (tx, mut rx) = broadcast::channel::<u32>(cap);
                    check!("Sender::receiver_count", format!("cap {}", cap), 1usize, tx.receiver_count());
                    for i in 0..sent as u32 {
                        check!("Sender::send (Ok(receivers) while a receiver exists)", format!("cap {} msg {}", cap, i), Ok(1usize), tx.send(i).map_err(|_| ()));
                    }
                    let mut rx_late = tx.subscribe();
                    check!("Sender::subscribe positions the receiver at the end of the log", format!("cap {} after {} msgs", cap, sent), true, matches!(rx_late.try_recv(), Err(TryRecvError::Empty)));
                    if close {
                        drop(tx);
                    }
                    // what the receiver sees: Lagged exactly once iff more than the retained messages were pending, then the
                    // retained messages in order, then Empty (open) / Closed (closed, only after the drain)
                    let mut got: Vec<String> = Vec::new();
                    loop {
                        match rx.try_recv() {
                            Ok(x) => got.push(format!("{}", x)),
                            Err(TryRecvError::Lagged(k)) => got.push(format!("Lagged({})", k)),
                            Err(TryRecvError::Empty) => {
                                got.push("Empty".into());
                                break;
                            }
                            Err(TryRecvError::Closed) => {
                                got.push("Closed".into());
                                break;
                            }
                        }
                        if got.len() > 64 {
                            break;
                        }
                    }
                    let mut exp: Vec<String> = Vec::new();
                    let first = if sent > retained {
                        exp.push(format!("Lagged({})", sent - retained));
                        sent - retained
                    } else {
                        0
                    };
                    for i in first..sent {
                        exp.push(format!("{}", i));
                    }
                    exp.push(if close { "Closed".into() } else { "Empty".into() });
                    check!("Receiver: Lagged once iff > retained pending, then FIFO, Closed only after the drain (retained = capacity rounded up to a power of two)", format!("capacity {} sent {} closed {}", cap, sent, close), exp, got);
                    drop(rx_late);
                }
            }
        }
        let (tx, rx) = broadcast::channel::<u32>(4);
        drop(rx);
        check!("Sender::send (Err and nothing retained without receivers)", "no receiver".to_string(), true, tx.send(1).is_err());
    }
    // ---------------- prelude/vecdeque.rs and the rewrites R-OPTCOMB / R-FORMUT / R-ITER of unit filter
    {
        use std::collections::VecDeque;
        // all strictly ascending deques over 0..maxn+1 (bit masks)
        let top = maxn.min(6) + 1;
        for mask in 0u32..(1 << top) {
            let d: VecDeque<usize> = (0..top).filter(|i| mask & (1 << i) != 0).collect();
            let dv: Vec<usize> = d.iter().cloned().collect();
            check!("VecDeque::front/back", format!("{:?}", dv), (dv.first().cloned(), dv.last().cloned()), (d.front().cloned(), d.back().cloned()));
            for x in 0..=top + 1 {
                check!("VecDeque::get", format!("{:?} index {}", dv, x), dv.get(x).cloned(), d.get(x).cloned());
                // partition_point with a monotone predicate: r <= len, everything before r accepted, everything from r rejected
                let r = d.partition_point(|&i| i < x);
                let ok = r <= dv.len() && dv[..r].iter().all(|&i| i < x) && dv[r..].iter().all(|&i| !(i < x));
                check!("VecDeque::partition_point (monotone predicate)", format!("{:?} < {}", dv, x), true, ok);
                // R-ITER: take_while(..).count() == longest prefix below x
                let c = d.iter().take_while(|&&idx| idx < x).count();
                let okc = c <= dv.len() && dv[..c].iter().all(|&i| i < x) && (c == dv.len() || dv[c] >= x);
                check!("R-ITER: iter().take_while(< len).count() is the longest prefix below len", format!("{:?} < {}", dv, x), true, okc);
                // R-FORMUT: iter_mut().skip(k) visits items k.. once each, front to back
                let mut a = d.clone();
                let mut order = Vec::new();
                for idx in a.iter_mut().skip(x) {
                    order.push(*idx);
                    *idx += 100;
                }
                let exp: Vec<usize> = dv.iter().enumerate().map(|(i, &v)| if i >= x { v + 100 } else { v }).collect();
                check!("R-FORMUT: iter_mut().skip(k) = index loop from k", format!("{:?} skip {}", dv, x), (exp, dv.iter().skip(x).cloned().collect::<Vec<_>>()), (a.iter().cloned().collect::<Vec<_>>(), order));
            }
            let mut a = d.clone();
            for idx in &mut a {
                *idx += 1;
            }
            check!("R-FORMUT: for idx in &mut deque = index loop from 0", format!("{:?}", dv), dv.iter().map(|v| v + 1).collect::<Vec<_>>(), a.iter().cloned().collect::<Vec<_>>());
        }
        // R-RETAIN / R-FMLOOP: the closure is called once per item, front to back; retain keeps exactly the accepted items,
        // filter_map + collect pushes the Some results in order
        for n in 0..=maxn.min(6) {
            for mask in 0u32..(1 << n) {
                let mut a = v(n);
                let mut seen = Vec::new();
                a.retain(|x| {
                    seen.push(*x);
                    mask & (1 << *x) != 0
                });
                let exp: Vec<u32> = (0..n as u32).filter(|x| mask & (1 << x) != 0).collect();
                check!("R-RETAIN: imbl retain = predicate on every item in order, flagged items kept", format!("len {} mask {:b}", n, mask), (exp.clone(), (0..n as u32).collect::<Vec<_>>()), (s(&a), seen));
                let mut seen = Vec::new();
                let out: Vector<u32> = v(n)
                    .into_iter()
                    .filter_map(|x| {
                        seen.push(x);
                        if mask & (1 << x) != 0 { Some(x + 100) } else { None }
                    })
                    .collect();
                check!("R-FMLOOP: into_iter().filter_map().collect() = items in order, Some results pushed at the back", format!("len {} mask {:b}", n, mask), (exp.iter().map(|x| x + 100).collect::<Vec<_>>(), (0..n as u32).collect::<Vec<_>>()), (s(&out), seen));
                // FilterMap::new's chain: iter().enumerate().filter_map(..).unzip()
                let mut seen = Vec::new();
                let (va, ix): (Vector<u32>, std::collections::VecDeque<usize>) = v(n)
                    .iter()
                    .enumerate()
                    .filter_map(|(i, x)| {
                        seen.push((i, *x));
                        if mask & (1 << *x) != 0 { Some((*x + 100, i)) } else { None }
                    })
                    .unzip();
                check!("chain: iter().enumerate().filter_map().unzip() = items in order with their index, Some results split in order", format!("len {} mask {:b}", n, mask), (exp.iter().map(|x| x + 100).collect::<Vec<_>>(), exp.iter().map(|x| *x as usize).collect::<Vec<_>>(), (0..n).map(|i| (i, i as u32)).collect::<Vec<_>>()), (s(&va), ix.iter().cloned().collect::<Vec<_>>(), seen));
            }
        }
        // R-OPTCOMB: the combinators are their match / if forms, the closure runs at most once
        for o in [None, Some(3u32)] {
            let mut calls = 0;
            let r = o.map(|x| { calls += 1; x + 1 });
            check!("R-OPTCOMB: Option::map", format!("{:?}", o), (match o { Some(x) => Some(x + 1), None => None }, o.is_some() as u32), (r, calls));
            let mut calls = 0;
            let r = o.map_or(false, |x| { calls += 1; x == 3 });
            check!("R-OPTCOMB: Option::map_or", format!("{:?}", o), (match o { Some(x) => x == 3, None => false }, o.is_some() as u32), (r, calls));
        }
        for c in [false, true] {
            let mut calls = 0;
            let r = c.then(|| { calls += 1; 7u8 });
            check!("R-OPTCOMB: bool::then", format!("{}", c), (if c { Some(7u8) } else { None }, c as u32), (r, calls));
        }
    }
    // ---------------- prelude/sortvec.rs (unit sort): binary_search_by, sort_by, last, position, iter_mut order (R-FOREACH, R-FOLD)
    {
        let kmax = maxn.min(5);
        let mut seqs: Vec<Vec<u32>> = vec![vec![]];
        let mut frontier: Vec<Vec<u32>> = vec![vec![]];
        for _ in 0..kmax {
            let mut next = Vec::new();
            for q in &frontier {
                for k in 0..3u32 {
                    let mut q2 = q.clone();
                    q2.push(k);
                    next.push(q2);
                }
            }
            seqs.extend(next.iter().cloned());
            frontier = next;
        }
        for keys in &seqs {
            let tagged: Vector<(usize, u32)> = keys.iter().cloned().enumerate().collect();
            // sort_by: a rearrangement, ascending under the comparator (stability is NOT assumed)
            let mut sorted = tagged.clone();
            sorted.sort_by(|(_, a), (_, b)| a.cmp(b));
            let mut as_set: Vec<(usize, u32)> = sorted.iter().cloned().collect();
            as_set.sort();
            let asc = sorted.iter().zip(sorted.iter().skip(1)).all(|(a, b)| a.1 <= b.1);
            check!("imbl::Vector::sort_by: rearrangement, ascending under the comparator", format!("{:?}", keys), (tagged.iter().cloned().collect::<Vec<_>>(), true), (as_set, asc));
            check!("imbl::Vector::last", format!("{:?}", keys), keys.last().cloned(), tagged.last().map(|(_, k)| *k));
            // binary_search_by on the sorted vector, probes below / among / above the keys
            for nv in 0..4u32 {
                let r = sorted.binary_search_by(|(_, k)| k.cmp(&nv));
                let ok = match r {
                    Ok(i) => i < sorted.len() && sorted[i].1 == nv,
                    Err(i) => i <= sorted.len() && sorted.iter().take(i).all(|(_, k)| *k < nv) && sorted.iter().skip(i).all(|(_, k)| *k > nv),
                };
                check!("imbl::Vector::binary_search_by: Ok(i) probe Equal at i / Err(i) Less before, Greater from i", format!("{:?} probe {}", sorted, nv), true, ok);
                // Iterator::position: first accepted item; the predicate sees the items front to back up to that one
                let mut seen = Vec::new();
                let r = tagged.iter().position(|(t, k)| { seen.push(*t); *k == nv });
                let exp = keys.iter().position(|k| *k == nv);
                let exp_seen: Vec<usize> = (0..exp.map(|e| e + 1).unwrap_or(keys.len())).collect();
                check!("Iterator::position over imbl iter(): first accepted item, earlier ones rejected", format!("{:?} find {}", keys, nv), (exp, exp_seen), (r, seen));
            }
            // R-FOREACH: iter_mut().for_each = index loop front to back, each item once
            let mut a = tagged.clone();
            let mut order = Vec::new();
            a.iter_mut().for_each(|(t, _)| { order.push(*t); *t += 10; });
            check!("R-FOREACH: iter_mut().for_each = index loop over the items in order", format!("{:?}", keys), ((0..keys.len()).collect::<Vec<_>>(), keys.iter().cloned().enumerate().map(|(i, k)| (i + 10, k)).collect::<Vec<_>>()), (order, a.iter().cloned().collect::<Vec<_>>()));
            // R-FOLD: iter_mut().enumerate().fold = index loop with the accumulator in a variable
            let mut a = tagged.clone();
            let mut order = Vec::new();
            let acc = a.iter_mut().enumerate().fold(None, |mut pos, (i, (t, k))| {
                order.push((i, *t));
                if pos.is_none() && *k == 1 { pos = Some(i); } else { *t += 10; }
                pos
            });
            let mut b: Vec<(usize, u32)> = tagged.iter().cloned().collect();
            let mut acc2 = None;
            let mut kx = 0;
            while kx < b.len() {
                let mut pos = acc2;
                let i = kx;
                let (t, k) = &mut b[kx];
                acc2 = { if pos.is_none() && *k == 1 { pos = Some(i); } else { *t += 10; } pos };
                kx += 1;
            }
            check!("R-FOLD: iter_mut().enumerate().fold = index loop, accumulator in a variable", format!("{:?}", keys), (acc2, b, (0..keys.len()).map(|i| (i, i)).collect::<Vec<_>>()), (acc, a.iter().cloned().collect::<Vec<_>>(), order));
        }
        check!("Ordering::is_ge", "all".to_string(), (false, true, true), (std::cmp::Ordering::Less.is_ge(), std::cmp::Ordering::Equal.is_ge(), std::cmp::Ordering::Greater.is_ge()));
    }
    // ---------------- prelude/arc.rs
    {
        use std::sync::{Arc, Weak};
        let a = Arc::new(5u8);
        check!("Arc::new: strong 1, weak 0", "new".to_string(), (1usize, 0usize), (Arc::strong_count(&a), Arc::weak_count(&a)));
        let b = Arc::clone(&a);
        let w = Arc::downgrade(&a);
        check!("Arc: counts = live handles", "clone + downgrade".to_string(), (2usize, 1usize), (Arc::strong_count(&a), Arc::weak_count(&b)));
        check!("Weak::upgrade Some while a strong handle is alive", "alive".to_string(), true, Weak::upgrade(&w).is_some());
        drop(a);
        drop(b);
        check!("Weak::upgrade None after the last strong handle", "dead".to_string(), true, Weak::upgrade(&w).is_none());
        let mut c = Arc::new(1u8);
        check!("Arc::get_mut Some iff unique", "unique".to_string(), true, Arc::get_mut(&mut c).is_some());
        let _w2 = Arc::downgrade(&c);
        check!("Arc::get_mut None with a weak handle", "weak alive".to_string(), true, Arc::get_mut(&mut c).is_none());
    }
    (n_eval, contracts.len(), f)
}
