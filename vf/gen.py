"""Generator: unit template (+ /repo source text) -> one single-file Verus input.

A unit template is Rust/Verus text with directive lines starting with `//@`.
Everything else is copied as is (it is the hand-written part: stand-in
declarations, spec functions, lemmas, impl headers).  Directives pull *real*
source text out of /repo by the byte spans `vextract` reports and splice
contract text in at spec-only positions.  Every rewrite that touches extracted
text is logged (rule name + site) so that the evidence can list it.

Directives
  //@include <path relative to /verif>
  //@item   <repo file> :: <item key>          (verbatim item, outer attributes dropped)
  //@fields <repo file> :: <struct key> [proj]  (field list; `proj` => `&'a mut` fields)
  //@fn     <repo file> :: <fn key>
      sub-directives until //@end (each starts with `//@ `):
        name <new name>            rename
        props C09,C15              properties the obligations of this fn serve
        sub <RULE> "from" "to"     literal, word-bounded substitution on extracted text only
        recv <text>                replace the receiver (R-LOCK / R-PIN)
        ret <name>                 name for the return value (default `res`)
        attr <text>                attribute line put in front of every copy
        unasync                    R-AWAIT: drop `async` and `.await`
        external                   R-EXT: keep signature + contract, drop the body
        novis                      do not force `pub`
        panic <expr>               R-PANIC: panic!(..) => { proof { assert(<expr>); } diverge() }
        dropcall <method>          remove `.method()` calls on a receiver chain (R-PIN: as_mut)
        requires / ensures [tags]  following lines (until next directive) are clauses
        case <Label> : <when>      start of a case; following ensures belong to it
        loop <n> / closure <n>     following lines are spliced at that loop / closure
        view                       also emit an `external_body` caller view `name` carrying
                                   `case ==> clause` for every case (used by verified callers)
  //@end
"""
import json, os, re, subprocess, hashlib

VERIF = os.path.dirname(os.path.dirname(os.path.abspath(__file__)))
REPO = os.environ.get("VERIF_REPO", "/repo")
EXTRACT_BIN = os.path.join(VERIF, "extract", "target", "release", "vextract")


def ghost(text):
    """spliced proof script (asserts, lemma calls, ghost snapshots): marked so that a failure located inside it can be told
    from a failure of a contract clause (postcondition, invariant, precondition of a callee in the extracted code)"""
    return "// @ghost{\n" + text + "\n// @ghost}"


def ghost_regions(text):
    """-> [(first line, last line)] of the marked regions in a generated file (1-based)"""
    out, start = [], None
    for n, ln in enumerate(text.split("\n"), 1):
        t = ln.strip()
        if t == "// @ghost{":
            start = n
        elif t == "// @ghost}" and start is not None:
            out.append((start, n))
            start = None
    return out


class Undecided(Exception):
    """The obligation could not be posed (lost anchor, unsupported construct)."""


class SourceIndex:
    def __init__(self):
        self.cache = {}

    def load(self, relfile):
        if relfile in self.cache:
            return self.cache[relfile]
        path = os.path.join(REPO, relfile)
        if not os.path.exists(path):
            raise Undecided("source file missing: %s" % relfile)
        out = subprocess.run([EXTRACT_BIN, path], capture_output=True, text=True)
        if out.returncode != 0:
            raise Undecided("extractor failed on %s: %s" % (relfile, out.stderr[-300:]))
        d = json.loads(out.stdout)[0]
        if "error" in d:
            raise Undecided("extractor: %s: %s" % (relfile, d["error"]))
        src = open(path, "rb").read()
        self.cache[relfile] = (src, d["items"])
        return self.cache[relfile]

    def find(self, relfile, key, kinds=None):
        src, items = self.load(relfile)
        want = key.replace(" ", "")
        hits = [it for it in items if it["key"].replace(" ", "") == want and (kinds is None or it["kind"] in kinds)]
        if len(hits) != 1:
            raise Undecided("item %r in %s found %d times (need exactly 1)" % (key, relfile, len(hits)))
        return src, hits[0]


def _sub_text(text, subs, log, site):
    for rule, a, b in subs:
        pat = re.escape(a)
        if re.match(r"\w", a[0]):
            pat = r"(?<![\w])" + pat
        if re.match(r"\w", a[-1]):
            pat = pat + r"(?![\w])"
        new, n = re.subn(pat, b.replace("\\", "\\\\"), text)
        if n:
            log.append({"rule": rule, "site": site, "from": a, "to": b, "count": n})
        text = new
    return text


def apply_edits(src, start, end, edits, subs, log, site, body_subs=None, body_start=None):
    """src: bytes; edits: list of (s, e, replacement_str) within [start,end).
    body_subs: substitutions applied only to original text at or after byte offset body_start."""
    edits = sorted(edits, key=lambda x: (x[0], x[1]))
    out = []
    pos = start

    def seg(a, b):
        t = src[a:b].decode()
        if body_subs and body_start is not None and a >= body_start:
            return _sub_text(t, list(subs) + list(body_subs), log, site)
        return _sub_text(t, subs, log, site)

    for s, e, rep in edits:
        if s < pos:
            if s == e and s >= pos - 0:  # zero-width insertion at same point: keep order
                pass
            else:
                raise Undecided("overlapping edits at %s (%d<%d)" % (site, s, pos))
        out.append(seg(pos, s))
        out.append(rep)
        pos = max(pos, e)
    out.append(seg(pos, end))
    return "".join(out)


DROP_ATTRS = {"doc", "derive", "must_use", "track_caller", "allow", "inline", "has_significant_drop", "cfg", "cfg_attr", "non_exhaustive", "project", "pin"}


def attr_edits(attrs, log, site):
    eds = []
    for a in attrs:
        nm = a["name"]
        if nm not in DROP_ATTRS:
            raise Undecided("attribute %s at %s is outside R-DROP" % (a["text"], site))
        eds.append((a["span"][0], a["span"][1], ""))
        if nm != "doc":
            log.append({"rule": "R-DROP", "site": site, "what": a["text"]})
    return eds


class FnSpec:
    def __init__(self, relfile, key):
        self.file = relfile
        self.key = key
        self.name = None
        self.label = None
        self.props = []
        self.subs = []
        self.recv = None
        self.ret = "res"
        self.attrs = []
        self.unasync = False
        self.external = False
        self.novis = False
        self.panic = None
        self.panicwhen = None  # the panic branch may only be reached when this holds (panic freedom otherwise)
        self.dropcalls = []
        self.requires = []  # list of text
        self.ensures = []  # list of (tags, text)  common
        self.cases = []  # list of dict(label, when, ensures=[(tags,text)], requires=[text])
        self.loops = {}
        self.closures = {}
        self.view = False
        self.noret = False
        self.breakvals = []
        self.mutself = False
        self.selfarg = None
        self.like = None
        self.nested = {}
        self.optcombs = []  # closure numbers whose Option/bool combinator call is inlined (R-OPTCOMB)
        self.forindex = {}  # loop n -> (container expr, start expr)  (R-FORMUT)
        self.closparams = {}  # (closure n, param k) -> type  (R-CLOSPAT)
        self.bodyghost = None  # ghost declarations placed right after the opening brace of the body
        self.retainloops = {}  # closure n -> (container expr, invariant text)   (R-RETAIN)
        self.retainproofs = {}
        self.fmloops = {}  # closure n -> invariant text   (R-FMLOOP)
        self.fmloopproofs = {}
        self.header = None  # closurefn: the hand-written signature of the lifted closure (R-LIFT)
        self.assertmacro = False  # R-PANIC for `assert!(E)`: `{ let __aN = E; proof { assert(__aN); } }`
        self.pretailproof = None  # proof text placed in front of the tail expression
        self.tailproof = None  # proof text placed between the bound tail expression and the return (R-TAILBIND)
        self.foreachs = {}  # closure n -> (container expr, invariant text)   (R-FOREACH)
        self.foldloops = {}  # closure n -> (container expr, invariant text)   (R-FOLD)
        self.ats = []  # (arm pattern prefix, anchor text, 'before'|'after', ghost text): ghost text spliced at a statement boundary
        self.retproofs = []  # (anchor text, ghost text): `return E` => `{ let __ret = E; <ghost> return __ret; }` (R-RETBIND)
        self.liftcalls = {}  # closure n -> replacement text for the method call that takes it (R-LIFTCALL)
        self.orguard = False  # R-ORGUARD: `A | B if G => X` => `A if G => X, B if G => X`


def parse_tags(s):
    s = s.strip()
    if s.startswith("[") and s.endswith("]"):
        return [t.strip() for t in s[1:-1].split(",") if t.strip()]
    return None


class Generator:
    def __init__(self, unit_path):
        self.unit_path = unit_path
        self.unit = os.path.splitext(os.path.basename(unit_path))[0]
        self.idx = SourceIndex()
        self.out = []  # lines
        self.log = []  # rewrites
        self.obligations = []  # dict(id, fn, case, props, start_line, end_line, source, kind)
        self.functions = []  # functions under contract (source keys)
        self.trusted = []  # assumption scan
        self.undecided = []  # (what, reason)
        self.sources = set()

    # ---- output helpers
    def emit(self, text):
        for ln in text.split("\n"):
            self.out.append(ln)

    def lineno(self):
        return len(self.out) + 1

    # ---- directives
    def run(self):
        lines = open(self.unit_path).read().split("\n")
        i = 0
        while i < len(lines):
            ln = lines[i]
            st = ln.strip()
            if st.startswith("//@include "):
                p = os.path.join(VERIF, st.split(None, 1)[1].strip())
                self.emit("// ---- include %s" % os.path.relpath(p, VERIF))
                sub = open(p).read().split("\n")
                # includes may themselves contain directives
                lines[i + 1:i + 1] = sub
                i += 1
                continue
            if st.startswith("//@item ") or st.startswith("//@fields "):
                kind, rest = st[3:].split(None, 1)
                j = i + 1
                subs = []
                while j < len(lines) and lines[j].strip().startswith("//@ "):
                    d = lines[j].strip()[4:]
                    if d.startswith("sub "):
                        subs.append(self.parse_sub(d))
                    j += 1
                try:
                    if kind == "item":
                        self.do_item(rest, subs)
                    else:
                        self.do_fields(rest, subs)
                except Undecided as u:
                    self.undecided.append((rest, str(u)))
                    self.emit("// UNDECIDED %s: %s" % (rest, u))
                i = j
                if i < len(lines) and lines[i].strip() == "//@end":
                    i += 1
                continue
            if st.startswith("//@const "):
                # an associated const of an impl, emitted verbatim as a free `pub const` (type and value come from the source)
                rest = st[len("//@const "):]
                relfile, key = [x.strip() for x in rest.split("::", 1)]
                try:
                    src, it = self.idx.find(relfile, key, kinds=("assoc_const",))
                    self.sources.add(relfile)
                    nm = key.split("::")[-1]
                    self.emit("// ---- extracted verbatim: %s::%s" % (relfile, key))
                    self.emit("pub const %s: %s = %s;" % (nm, src[it["ty"][0]:it["ty"][1]].decode(), src[it["expr"][0]:it["expr"][1]].decode()))
                    self.log.append({"rule": "R-TRAIT", "site": "%s::%s" % (relfile, key), "what": "associated const emitted as a free const"})
                except Undecided as u:
                    self.undecided.append((rest, str(u)))
                    self.emit("// UNDECIDED %s: %s" % (rest, u))
                i += 1
                continue
            if st.startswith("//@viewof "):
                # caller view of a function whose contract is proved in another unit: same contract text, body dropped
                rest = st[len("//@viewof "):]
                upath, frest = [x.strip() for x in rest.split("::", 1)]
                ulines = open(os.path.join(VERIF, upath)).read().split("\n")
                want = "//@fn " + frest
                k = next((n for n, l in enumerate(ulines) if l.strip().replace(" ", "") == want.replace(" ", "")), None)
                if k is None:
                    raise RuntimeError("viewof: %s not found in %s" % (frest, upath))
                spec, _ = self.parse_fn_block(ulines, k)
                spec.external = True
                # local overrides (sub / recv) may follow
                j = i + 1
                while j < len(lines) and lines[j].strip().startswith("//@ "):
                    d = lines[j].strip()[4:]
                    if d.startswith("sub "):
                        spec.subs.append(self.parse_sub(d))
                    j += 1
                if j < len(lines) and lines[j].strip() == "//@end":
                    j += 1
                try:
                    self.do_fn(spec)
                except Undecided as u:
                    self.undecided.append((frest, str(u)))
                    self.emit("// UNDECIDED view %s: %s" % (frest, u))
                i = j
                continue
            if st.startswith("//@closurefn "):
                # R-LIFT: the body of closure n of a function, verified as the body of a method whose parameters are the
                # closure's parameters and its captures (signature given by `header`)
                rest = st[len("//@closurefn "):]
                frest, cn = rest.rsplit("::", 1)
                saved = lines[i]
                lines[i] = "//@fn " + frest.strip()
                spec, j = self.parse_fn_block(lines, i)
                lines[i] = saved
                try:
                    self.do_closurefn(spec, int(cn))
                except Undecided as u:
                    self.undecided.append(("%s :: %s (closure %s)" % (spec.file, spec.key, cn.strip()), str(u)))
                    self.emit("// UNDECIDED %s :: %s closure %s: %s" % (spec.file, spec.key, cn.strip(), u))
                    for oid, props in self.planned_ids(spec):
                        self.obligations.append({"id": oid, "fn": spec.key, "props": props, "start": 0, "end": -1, "posed": False, "reason": str(u), "source": spec.file})
                i = j + 1
                continue
            if st.startswith("//@fn "):
                spec, j = self.parse_fn_block(lines, i)
                relfile, key = spec.file, spec.key
                try:
                    self.do_fn(spec)
                except Undecided as u:
                    self.undecided.append(("%s :: %s" % (relfile, key), str(u)))
                    self.emit("// UNDECIDED %s :: %s: %s" % (relfile, key, u))
                    # the function itself stays undecided; its callers in this unit can still be checked against its
                    # contract (modular verification): emit the caller view if the signature is intact
                    try:
                        src2, it2 = self.idx.find(spec.file, spec.key, kinds=("fn",))
                        if it2["body"] is not None and not spec.selfarg and not spec.mutself and not spec.external:
                            self.emit_view(spec, src2, it2, spec.name or it2["sig"]["name"], "%s::%s (UNDECIDED, contract only)" % (spec.file, spec.key))
                    except Exception:
                        pass
                    # obligations that could not be posed
                    for oid, props in self.planned_ids(spec):
                        self.obligations.append({"id": oid, "fn": spec.key, "props": props, "start": 0, "end": -1, "posed": False, "reason": str(u), "source": spec.file})
                i = j + 1
                continue
            if st.startswith("//@"):
                raise RuntimeError("unknown directive line %r in %s" % (st, self.unit_path))
            self.out.append(ln)
            i += 1
        return "\n".join(self.out) + "\n"

    def parse_fn_block(self, lines, i):
        st = lines[i].strip()
        if True:
            rest = st[6:]
            relfile, key = [x.strip() for x in rest.split("::", 1)]
            spec = FnSpec(relfile, key)
            j = i + 1
            cur = None  # (kind, target list/dict key)
            buf = []

            def flush():
                nonlocal cur, buf
                if cur is None:
                    return
                text = "\n".join(buf).rstrip()
                k = cur[0]
                clauses = []
                acc = ""
                for b in buf:
                    b = b.strip()
                    if not b or b.startswith("//"):
                        continue
                    if b.endswith("\\"):
                        acc += b[:-1].rstrip() + " "
                        continue
                    clauses.append((acc + b).rstrip(","))
                    acc = ""
                if acc:
                    clauses.append(acc.strip())
                if k == "requires":
                    if cur[2] is not None:
                        cur[2]["requires"].extend(clauses)
                    else:
                        spec.requires.extend(clauses)
                elif k == "ensures":
                    tgt = cur[2]["ensures"] if cur[2] is not None else spec.ensures
                    for c in clauses:
                        tgt.append((cur[1], c))
                elif k == "nested":
                    spec.nested[cur[1]] = text
                elif k == "loop":
                    spec.loops[cur[1]] = text
                elif k == "closure":
                    spec.closures[cur[1]] = text
                elif k == "bodyghost":
                    spec.bodyghost = text
                elif k == "retainloop":
                    spec.retainloops[cur[1][0]] = (cur[1][1], text)
                elif k == "retainproof":
                    spec.retainproofs[cur[1]] = text
                elif k == "fmloop":
                    spec.fmloops[cur[1]] = text
                elif k == "fmloopproof":
                    spec.fmloopproofs[cur[1]] = text
                elif k == "tailproof":
                    spec.tailproof = text
                elif k == "foreach":
                    spec.foreachs[cur[1][0]] = (cur[1][1], text)
                elif k == "foldloop":
                    spec.foldloops[cur[1][0]] = (cur[1][1], text)
                elif k == "at":
                    spec.ats.append(cur[1] + (text,))
                elif k == "retproof":
                    spec.retproofs.append((cur[1], text))
                elif k == "pretailproof":
                    spec.pretailproof = text
                cur = None
                buf = []

            case = None
            while j < len(lines) and lines[j].strip() != "//@end":
                l2 = lines[j]
                s2 = l2.strip()
                if s2.startswith("//@ "):
                    flush()
                    d = s2[4:].strip()
                    w = d.split(None, 1)
                    cmd = w[0]
                    arg = w[1] if len(w) > 1 else ""
                    if cmd == "name":
                        spec.name = arg.strip()
                    elif cmd == "label":
                        spec.label = arg.strip()
                    elif cmd == "props":
                        spec.props = [x.strip() for x in arg.split(",") if x.strip()]
                    elif cmd == "sub":
                        spec.subs.append(self.parse_sub(d))
                    elif cmd == "recv":
                        spec.recv = arg
                    elif cmd == "ret":
                        spec.ret = arg.strip()
                    elif cmd == "noret":
                        spec.noret = True
                    elif cmd == "attr":
                        spec.attrs.append(arg)
                    elif cmd == "unasync":
                        spec.unasync = True
                    elif cmd == "external":
                        spec.external = True
                    elif cmd == "novis":
                        spec.novis = True
                    elif cmd == "view":
                        spec.view = True
                    elif cmd == "noview":
                        # the current case is not exported into the caller view (a clause that is a known finding must not be assumed by callers)
                        if case is None:
                            raise RuntimeError("noview outside a case in %s" % self.unit_path)
                        case["noview"] = True
                    elif cmd == "panic":
                        spec.panic = arg
                    elif cmd == "panicwhen":
                        spec.panicwhen = arg
                    elif cmd == "dropcall":
                        spec.dropcalls.append(arg.strip())
                    elif cmd == "requires":
                        cur = ("requires", None, case)
                    elif cmd == "ensures":
                        cur = ("ensures", parse_tags(arg), case)
                    elif cmd == "case":
                        label, when = [x.strip() for x in arg.split(":", 1)]
                        case = {"label": label, "when": when, "ensures": [], "requires": []}
                        spec.cases.append(case)
                    elif cmd == "like":
                        # same contract text as another function (e.g. the sync twin of an async-lock method)
                        upath, frest = [x.strip() for x in arg.split("::", 1)]
                        ulines = open(os.path.join(VERIF, upath)).read().split("\n")
                        want = ("//@fn " + frest).replace(" ", "")
                        k = next((n for n, l in enumerate(ulines) if l.strip().replace(" ", "") == want), None)
                        if k is None:
                            raise RuntimeError("like: %s not found in %s" % (frest, upath))
                        other, _ = self.parse_fn_block(ulines, k)
                        # the clauses are taken over verbatim; they all serve the properties of THIS function
                        spec.requires = list(other.requires)
                        spec.ensures = [(None, t) for _, t in other.ensures]
                        spec.cases = [dict(c, ensures=[(None, t) for _, t in c["ensures"]]) for c in other.cases]
                        if not spec.props:
                            spec.props = list(other.props)
                        if spec.recv is None:
                            spec.recv = other.recv
                        spec.like = "%s :: %s" % (upath, frest)
                    elif cmd == "mutself":
                        spec.mutself = True
                    elif cmd == "selfarg":
                        nm, ty = arg.split(None, 1)
                        spec.selfarg = (nm.strip(), ty.strip())
                    elif cmd == "breakval":
                        w2 = arg.split(None, 1)
                        spec.breakvals.append((int(w2[0]), w2[1].strip() if len(w2) > 1 else None))
                    elif cmd == "optcomb":
                        spec.optcombs += [int(x) for x in arg.split()]
                    elif cmd == "forindex":
                        m = re.match(r'(\d+)\s+"([^"]*)"\s+"([^"]*)"\s*$', arg)
                        if not m:
                            raise RuntimeError("bad forindex directive: %r" % d)
                        spec.forindex[int(m.group(1))] = (m.group(2), m.group(3))
                    elif cmd == "closparam":
                        w2 = arg.split(None, 3)
                        spec.closparams[(int(w2[0]), int(w2[1]))] = (w2[2].strip(), w2[3].strip())
                    elif cmd == "header":
                        spec.header = arg.strip()
                    elif cmd == "assertmacro":
                        spec.assertmacro = True
                    elif cmd == "bodyghost":
                        cur = ("bodyghost", None, None)
                    elif cmd == "retainloop":
                        m = re.match(r'(\d+)\s+"([^"]*)"\s*$', arg)
                        if not m:
                            raise RuntimeError("bad retainloop directive: %r" % d)
                        cur = ("retainloop", (int(m.group(1)), m.group(2)), None)
                    elif cmd == "retainproof":
                        cur = ("retainproof", int(arg), None)
                    elif cmd in ("foreach", "foldloop"):
                        # foldloop takes the accumulator's type as a third argument (the invariant mentions it before inference is done)
                        m = re.match(r'(\d+)\s+"([^"]*)"(?:\s+"([^"]*)")?\s*$', arg)
                        if not m:
                            raise RuntimeError("bad %s directive: %r" % (cmd, d))
                        cur = (cmd, (int(m.group(1)), (m.group(2), m.group(3)) if cmd == "foldloop" else m.group(2)), None)
                    elif cmd == "at":
                        # optional `k/N`: the k-th of exactly N occurrences of the anchor in the arm
                        m = re.match(r'"((?:[^"\\]|\\.)*)"\s+"((?:[^"\\]|\\.)*)"\s+(before|after|end)(?:\s+(\d+)/(\d+))?\s*$', arg)
                        if not m:
                            raise RuntimeError("bad at directive: %r" % d)
                        un = lambda t: t.replace('\\"', '"')
                        cur = ("at", (un(m.group(1)), un(m.group(2)), m.group(3), (int(m.group(4)), int(m.group(5))) if m.group(4) else (1, 1)), None)
                    elif cmd == "retproof":
                        m = re.match(r'"((?:[^"\\]|\\.)*)"\s*$', arg)
                        if not m:
                            raise RuntimeError("bad retproof directive: %r" % d)
                        cur = ("retproof", m.group(1).replace('\\"', '"'), None)
                    elif cmd == "orguard":
                        spec.orguard = True
                    elif cmd == "liftcall":
                        m = re.match(r'(\d+)\s+"((?:[^"\\]|\\.)*)"\s*$', arg)
                        if not m:
                            raise RuntimeError("bad liftcall directive: %r" % d)
                        spec.liftcalls[int(m.group(1))] = m.group(2).replace('\\"', '"')
                    elif cmd == "fmloop":
                        cur = ("fmloop", int(arg), None)
                    elif cmd == "fmloopproof":
                        cur = ("fmloopproof", int(arg), None)
                    elif cmd == "tailproof":
                        cur = ("tailproof", None, None)
                    elif cmd == "pretailproof":
                        cur = ("pretailproof", None, None)
                    elif cmd == "nested":
                        cur = ("nested", int(arg), None)
                    elif cmd == "loop":
                        cur = ("loop", int(arg), None)
                    elif cmd == "closure":
                        cur = ("closure", int(arg), None)
                    else:
                        raise RuntimeError("unknown directive %r in %s" % (d, self.unit_path))
                else:
                    if cur is not None:
                        buf.append(l2)
                j += 1
        flush()
        return spec, j

    def parse_sub(self, d):
        m = re.match(r'sub\s+(\S+)\s+"((?:[^"\\]|\\.)*)"\s+"((?:[^"\\]|\\.)*)"\s*$', d)
        if not m:
            raise RuntimeError("bad sub directive: %r" % d)
        un = lambda s: s.replace('\\"', '"')
        return (m.group(1), un(m.group(2)), un(m.group(3)))

    # ---- items
    def do_item(self, rest, subs):
        relfile, key = [x.strip() for x in rest.split("::", 1)]
        src, it = self.idx.find(relfile, key)
        self.sources.add(relfile)
        site = "%s::%s" % (relfile, key)
        eds = attr_edits(it.get("attrs", []), self.log, site)
        if it["kind"] == "enum":
            for v in it["variants"]:
                eds += attr_edits(v["attrs"], self.log, site)
        if it["kind"] == "struct":
            for f in it["fields"]:
                eds += attr_edits(f["attrs"], self.log, site)
        s, e = it["span"]
        if it.get("vis") is not None:
            eds.append((it["vis"][0], it["vis"][1], "pub"))
            self.log.append({"rule": "R-VIS", "site": site})
        text = apply_edits(src, s, e, eds, subs, self.log, site)
        if it.get("vis") is None and it["kind"] in ("enum", "struct", "type", "trait"):
            text = "pub " + text.lstrip()
            self.log.append({"rule": "R-VIS", "site": site})
        self.emit("// ---- extracted verbatim: %s" % site)
        self.emit(text)

    def do_fields(self, rest, subs):
        proj = False
        if rest.endswith(" proj"):
            proj = True
            rest = rest[:-5]
        relfile, key = [x.strip() for x in rest.split("::", 1)]
        src, it = self.idx.find(relfile, key, kinds=("struct",))
        self.sources.add(relfile)
        site = "%s::%s" % (relfile, key)
        self.emit("    // ---- fields generated from the declaration of %s%s" % (site, " (projection, R-PIN)" if proj else ""))
        for f in it["fields"]:
            ty = _sub_text(src[f["ty"][0]:f["ty"][1]].decode(), subs, self.log, site)
            pinned = any(a["name"] == "pin" for a in f["attrs"])
            if proj:
                self.emit("    pub %s: &'a mut %s,%s" % (f["name"], ty, "   // #[pin] erased" if pinned else ""))
            else:
                self.emit("    pub %s: %s," % (f["name"], ty))
        if proj:
            self.log.append({"rule": "R-PIN", "site": site, "what": "projection struct generated from pin_project! declaration"})
        self.log.append({"rule": "R-VIS", "site": site})

    # ---- functions
    def copies(self, spec):
        """-> list of (suffix, case, props, ensures_texts)"""
        name = spec.name or None
        cases = spec.cases if spec.cases else [None]
        res = []
        for c in cases:
            blocks = list(spec.ensures) + (c["ensures"] if c else [])
            norm = [((tags if tags is not None else list(spec.props)), text) for tags, text in blocks]
            allp = []
            for tags, _ in norm:
                for t in tags:
                    if t not in allp:
                        allp.append(t)
            if not allp:
                allp = list(spec.props)
            # group properties by identical block sets
            groups = {}
            for p in allp:
                sig = tuple(k for k, (tags, _) in enumerate(norm) if p in tags)
                groups.setdefault(sig, []).append(p)
            for sig, props in groups.items():
                full = len(groups) == 1
                suffix = ""
                if c:
                    suffix += "__" + c["label"]
                if not full:
                    suffix += "__" + "_".join(props)
                res.append((suffix, c, props, [norm[k][1] for k in sig]))
        return res

    def planned_ids(self, spec):
        base = spec.label or spec.name or spec.key.split("::")[-1]
        out = []
        for suffix, c, props, _ in self.copies(spec):
            out.append(("%s/%s%s" % (self.unit, base, suffix.replace("__", "#", 1) if suffix else ""), props))
        return out

    def do_fn(self, spec):
        src, it = self.idx.find(spec.file, spec.key, kinds=("fn",))
        self.sources.add(spec.file)
        site = "%s::%s" % (spec.file, spec.key)
        sig = it["sig"]
        orig_name = sig["name"]
        base = spec.name or orig_name
        if it["body"] is None:
            raise Undecided("no body")
        common = []
        common += attr_edits(it["attrs"], self.log, site)
        # visibility
        if it["vis"] is not None:
            if spec.novis:
                common.append((it["vis"][0], it["vis"][1], ""))
            else:
                common.append((it["vis"][0], it["vis"][1], "pub"))
        if sig["asyncness"] is not None:
            if not spec.unasync:
                raise Undecided("async fn without `unasync`")
            common.append((sig["asyncness"][0], sig["asyncness"][1], ""))
            self.log.append({"rule": "R-AWAIT", "site": site, "what": "async removed"})
        if spec.unasync and not spec.external:
            n = 0
            for c in it["calls"]:
                if c["name"] == "await":
                    common.append((c["dot"], c["span"][1], ""))
                    n += 1
            if n:
                self.log.append({"rule": "R-AWAIT", "site": site, "what": ".await removed", "count": n})
        for dc in spec.dropcalls:
            n = 0
            for c in it["calls"]:
                if c["name"] == dc:
                    common.append((c["dot"], c["span"][1], ""))
                    n += 1
            if n == 0:
                raise Undecided("dropcall %s: no such call" % dc)
            self.log.append({"rule": "R-PIN", "site": site, "what": ".%s() dropped" % dc, "count": n})
        if spec.recv is not None:
            r = [x for x in sig["inputs"] if x["receiver"]]
            if len(r) != 1:
                raise Undecided("recv: no receiver")
            old = src[r[0]["span"][0]:r[0]["span"][1]].decode()
            common.append((r[0]["span"][0], r[0]["span"][1], spec.recv))
            self.log.append({"rule": "R-PIN" if "Pin" in old else "R-LOCK", "site": site, "what": "receiver `%s` => `%s`" % (old, spec.recv)})
        body_subs = None
        if spec.mutself:
            r = [x for x in sig["inputs"] if x["receiver"]]
            if len(r) != 1 or src[r[0]["span"][0]:r[0]["span"][1]].decode().replace(" ", "") != "mutself":
                raise Undecided("mutself: receiver is not `mut self`")
            common.append((r[0]["span"][0], r[0]["span"][1], "self"))
            common.append((it["body"][0] + 1, it["body"][0] + 1, " let mut this = self;"))
            body_subs = [("R-MUTSELF", "self", "this")]
            self.log.append({"rule": "R-MUTSELF", "site": site, "what": "`mut self` => `self` + `let mut this = self;`, body uses `this`"})
        if spec.selfarg:
            # R-TRAIT: a trait method lifted to a free function: the receiver becomes an ordinary parameter
            r = [x for x in sig["inputs"] if x["receiver"]]
            if len(r) != 1:
                raise Undecided("selfarg: no receiver")
            old = src[r[0]["span"][0]:r[0]["span"][1]].decode()
            common.append((r[0]["span"][0], r[0]["span"][1], "%s%s: %s" % ("mut " if old.replace(" ", "").startswith("mut") else "", spec.selfarg[0], spec.selfarg[1])))
            body_subs = (body_subs or []) + [("R-TRAIT", "self", spec.selfarg[0])]
            self.log.append({"rule": "R-TRAIT", "site": site, "what": "receiver `%s` => parameter `%s: %s`" % (old, spec.selfarg[0], spec.selfarg[1])})
        if sig["ret"] is not None and not spec.noret:
            rt = src[sig["ret"][0]:sig["ret"][1]].decode()
            common.append((sig["ret"][0], sig["ret"][0], "(%s: " % spec.ret))
            common.append((sig["ret"][1], sig["ret"][1], ")"))
        # cfg'd statements
        for c in ([] if spec.external else it["cfgs"]):
            if 'feature="tracing"' in c["cfg"]:
                common.append((c["span"][0], c["span"][1], ""))
                self.log.append({"rule": "R-DROP", "site": site, "what": "statement under #[%s]" % c["cfg"]})
            else:
                raise Undecided("statement under #[%s] is outside R-DROP" % c["cfg"])
        # panics
        for m in ([] if spec.external else it["macros"]):
            if m["name"] == "panic" and spec.panic is not None:
                common.append((m["span"][0], m["span"][1], "{ proof { assert(%s);%s } diverge() }" % (spec.panic, (" assert(%s);" % spec.panicwhen) if spec.panicwhen else "")))
                self.log.append({"rule": "R-PANIC", "site": site})
        if spec.assertmacro and not spec.external:
            n = 0
            for m in it["macros"]:
                if m["name"] != "assert":
                    continue
                txt = src[m["span"][0]:m["span"][1]].decode()
                mm = re.match(r"^assert\s*!\s*\(", txt)
                if not mm or not txt.endswith(")"):
                    raise Undecided("assertmacro: unexpected shape of `%s`" % txt[:40])
                n += 1
                common.append((m["span"][0], m["span"][0] + mm.end(), "{ let __a%d = " % n))
                common.append((m["span"][1] - 1, m["span"][1], "; proof { assert(__a%d); } }" % n))
            if n:
                self.log.append({"rule": "R-PANIC", "site": site, "what": "assert!(E) => let + proof assert (the panic branch is proved dead)", "count": n})
        # wild fn params (the verus! macro wants identifiers)
        for pi, inp in enumerate(sig["inputs"]):
            if inp.get("wild"):
                common.append((inp["pat"][0], inp["pat"][1], "_w%d" % pi))
                self.log.append({"rule": "R-WILD", "site": site})
        # wild closure params
        for k, c in enumerate([] if spec.external else it["closures"]):
            for pi, p in enumerate(c["params"]):
                if p["wild"]:
                    common.append((p["span"][0], p["span"][1], "_w%d_%d" % (k + 1, pi)))
                    self.log.append({"rule": "R-WILD", "site": site})
        for n, text in spec.loops.items():
            if n < 1 or n > len(it["loops"]):
                raise Undecided("loop %d does not exist (lost anchor)" % n)
            common.append((it["loops"][n - 1]["body_start"], it["loops"][n - 1]["body_start"], "\n" + text + "\n"))
        for n, bty in spec.breakvals:
            if n < 1 or n > len(it["loops"]):
                raise Undecided("breakval: loop %d does not exist (lost anchor)" % n)
            lp = it["loops"][n - 1]
            if lp["kind"] != "loop" or not lp.get("breaks"):
                raise Undecided("breakval: loop %d has no `break <value>`" % n)
            common.append((lp["span"][0], lp["span"][0], "let __brk%d%s; " % (n, (": " + bty) if bty else "")))
            for b in lp["breaks"]:
                common.append((b["span"][0], b["expr"][0], "{ __brk%d = " % n))
                common.append((b["expr"][1], b["expr"][1], "; break; }"))
            common.append((lp["span"][1], lp["span"][1], "\n__brk%d" % n))
            self.log.append({"rule": "R-BREAKVAL", "site": site, "count": len(lp["breaks"])})
        for n, text in spec.nested.items():
            if n < 1 or n > len(it.get("nested", [])):
                raise Undecided("nested fn %d does not exist (lost anchor)" % n)
            common.append((it["nested"][n - 1]["body_start"], it["nested"][n - 1]["body_start"], "\n" + text + "\n"))
        for n, text in spec.closures.items():
            if n < 1 or n > len(it["closures"]):
                raise Undecided("closure %d does not exist (lost anchor)" % n)
            c = it["closures"][n - 1]
            if c["ret"] is not None:
                raise Undecided("closure %d already has a return type" % n)
            common.append((c["or2_end"], c["or2_end"], " " + text.strip() + " "))
            if not c["body_is_block"]:
                common.append((c["body"][0], c["body"][0], "{ "))
                common.append((c["body"][1], c["body"][1], " }"))
        # R-TAILBIND: `{ …; TAIL }` => `{ …; let __res = TAIL; proof { … } __res }` (an anchor for the exit proof)
        if spec.tailproof is not None:
            if it.get("tail") is None:
                raise Undecided("tailproof: the body has no tail expression")
            ts, te = it["tail"]
            if spec.pretailproof is not None:
                common.append((ts, ts, ghost("proof {\n" + spec.pretailproof + "\n        }") + "\n        "))
            # the tail expression takes its type from the return type: keep that for the binding
            rt_ann = ""
            if sig["ret"] is not None:
                rt_ann = ": " + _sub_text(src[sig["ret"][0]:sig["ret"][1]].decode(), spec.subs, [], site)
            common.append((ts, ts, "let __res%s = " % rt_ann))
            common.append((te, te, ";\n" + ghost("        proof {\n" + spec.tailproof + "\n        }") + "\n        __res"))
            self.log.append({"rule": "R-TAILBIND", "site": site})
        # R-OPTCOMB: `E.map(|p| B)` / `C.then(|| B)` / `E.map_or(D, |p| B)` with the closure inlined, as std defines them
        # (Verus rejects closures that capture a mutable reference; the match / if form is what the combinator does)
        def clos_call(n):
            if n < 1 or n > len(it["closures"]):
                raise Undecided("optcomb: closure %d does not exist (lost anchor)" % n)
            c = it["closures"][n - 1]
            for call in it["calls"]:
                if call.get("args") and call["args"][-1] == c["span"]:
                    return c, call
            raise Undecided("optcomb: closure %d is not the last argument of a method call" % n)
        if spec.bodyghost is not None and not spec.external:
            common.append((it["body"][0] + 1, it["body"][0] + 1, "\n" + ghost(spec.bodyghost) + "\n"))
        # R-RETAIN: `X.retain(|p| BODY)` => the predicate evaluated on every item in order, then the flagged items kept
        for n, (cont, inv) in spec.retainloops.items():
            c, call = clos_call(n)
            if call["name"] != "retain" or len(call["args"]) != 1 or len(c["params"]) != 1 or c["params"][0]["refdepth"] != 0 or c["params"][0]["wild"]:
                raise Undecided("retainloop: closure %d is not the argument of `.retain(|p| …)`" % n)
            if re.sub(r"\s+", "", src[call["recv"][0]:call["recv"][1]].decode()) != re.sub(r"\s+", "", cont):
                raise Undecided("retainloop: the receiver is not `%s`" % cont)
            # the parameter may be a pattern (`|(tag, _)|`): it is bound by the `let` that hands the item to the body
            pv = src[c["params"][0]["span"][0]:c["params"][0]["span"][1]].decode()
            pre = ("{ let mut __mask = RetainMask::new(); let mut __k: usize = 0; while __k < %s.len()\n%s\n{ let %s = %s.nth_ref(__k); let __b: bool = " % (cont, inv, pv, cont))
            suf = (";\n%s\n __mask.push(__b); __k += 1; }\n %s.retain_mask(__mask); }" % (ghost(" proof {\n%s\n }" % spec.retainproofs.get(n, "")), cont))
            common.append((call["span"][0], c["body"][0], pre))
            common.append((c["body"][1], call["span"][1], suf))
            self.log.append({"rule": "R-RETAIN", "site": site, "what": "`%s.retain(closure %d)` => evaluate the predicate on every item in order, then retain_mask" % (cont, n)})
        # R-FMLOOP: `E.into_iter().filter_map(|p| BODY).collect()` => a loop that takes the items in order and pushes the Some results
        for n, inv in spec.fmloops.items():
            c, call = clos_call(n)
            coll = next((x for x in it["calls"] if x["name"] == "collect" and x["recv"] == call["span"] and not x["args"]), None)
            into = next((x for x in it["calls"] if x["name"] == "into_iter" and x["span"] == call["recv"] and not x["args"]), None)
            if call["name"] != "filter_map" or coll is None or into is None or len(c["params"]) != 1 or c["params"][0]["ident"] is None or c["params"][0]["refdepth"] != 0 or not c["body_is_block"]:
                raise Undecided("fmloop: closure %d is not in `E.into_iter().filter_map(|p| { … }).collect()`" % n)
            e = src[into["recv"][0]:into["recv"][1]].decode()
            pv = c["params"][0]["ident"]
            pre = ("{ let mut __it = %s.into_iter(); let mut __out = Vector::new(); let mut __k: usize = 0; while !__it.is_done()\n%s\n{ let %s = __it.take_next(); let __r = " % (e, inv, pv))
            suf = (";\n%s\n match __r { Some(__x) => { __out.push_back(__x); } None => {} } __k += 1; }\n __out }" % ghost(" proof {\n%s\n }" % spec.fmloopproofs.get(n, "")))
            common.append((coll["span"][0], c["body"][0], pre))
            common.append((c["body"][1], coll["span"][1], suf))
            self.log.append({"rule": "R-FMLOOP", "site": site, "what": "`%s.into_iter().filter_map(closure %d).collect()` => loop over the items in order" % (e, n)})
        oc = [(n,) + clos_call(n) for n in spec.optcombs]
        oc.sort(key=lambda x: -(x[2]["span"][1] - x[2]["span"][0]))  # outer calls first (insertions at the same offset keep this order)
        for n, c, call in oc:
            if n in spec.closures:
                raise Undecided("optcomb: closure %d also carries a contract" % n)
            nm = call["name"]
            def bind(k):
                """-> (pattern text for the match arm, let-prefix for the arm body)"""
                prm = c["params"][k]
                if prm["ident"] is None:
                    # any other pattern (a tuple): bound by a `let` in front of the inlined body
                    if prm["refdepth"] != 0 or prm["wild"]:
                        raise Undecided("optcomb: closure %d parameter pattern is outside R-OPTCOMB" % n)
                    return "__o%d" % n, "let %s = __o%d; " % (src[prm["span"][0]:prm["span"][1]].decode(), n)
                if prm["refdepth"] == 0:
                    return prm["ident"], ""
                return "__o%d" % n, "let %s = %s__o%d; " % (prm["ident"], "*" * prm["refdepth"], n)
            cs, ce = call["span"]
            bs, be = c["body"]
            if nm == "map" and len(call["args"]) == 1 and len(c["params"]) == 1:
                pat, pre = bind(0)
                common.append((cs, cs, "(match "))
                common.append((call["recv"][1], bs, " { Some(%s) => Some({ %s" % (pat, pre)))
                common.append((be, ce, " }), None => None })"))
            elif nm == "then" and len(call["args"]) == 1 and len(c["params"]) == 0:
                common.append((cs, cs, "(if "))
                common.append((call["recv"][1], bs, " { Some("))
                common.append((be, ce, ") } else { None })"))
            elif nm == "map_or" and len(call["args"]) == 2 and len(c["params"]) == 1:
                pat, pre = bind(0)
                dflt = src[call["args"][0][0]:call["args"][0][1]].decode()
                if not re.match(r"^(true|false|\d+)$", dflt.strip()):
                    raise Undecided("optcomb: the default of `.map_or` is not a literal (evaluation order)")
                common.append((cs, cs, "(match "))
                common.append((call["recv"][1], bs, " { Some(%s) => { %s" % (pat, pre)))
                common.append((be, ce, " }, None => %s })" % dflt))
            else:
                raise Undecided("optcomb: `.%s` with this shape is outside R-OPTCOMB" % nm)
            self.log.append({"rule": "R-OPTCOMB", "site": site, "what": "`.%s(closure %d)` inlined as %s" % (nm, n, "if/else" if nm == "then" else "match")})
        # R-LIFTCALL: a method call whose last argument is a closure that is verified separately (R-LIFT) is replaced by a call of a
        # stand-in whose contract composes the callee's proved contract with the lifted closure's (Verus rejects the closure
        # itself: it captures a mutable reference)
        for n, rep_text in spec.liftcalls.items():
            c, call = clos_call(n)
            common.append((call["span"][0], call["span"][1], rep_text))
            self.log.append({"rule": "R-LIFTCALL", "site": site, "what": "`.%s(…, closure %d)` => `%s`" % (call["name"], n, rep_text)})
        # R-RETBIND: `return E` => `{ let __retN = E; <ghost text> return __retN; }` (binding the returned value first is the identity;
        # gives the exit proof of that return a place where the value has a name)
        for k, (anchor, text) in enumerate(spec.retproofs):
            pat = r"\s+".join(re.escape(w) for w in anchor.split())
            hits = [r for r in it.get("returns", []) if r["expr"] is not None and re.search(pat, src[r["span"][0]:r["span"][1]].decode())]
            if len(hits) != 1:
                raise Undecided("retproof: `%s` matches %d return statements (lost anchor)" % (anchor, len(hits)))
            r = hits[0]
            common.append((r["span"][0], r["expr"][0], "{ let __ret%d = " % k))
            common.append((r["expr"][1], r["span"][1], ";\n" + ghost(text.replace("__ret", "__ret%d" % k)) + "\n return __ret%d; }" % k))
            self.log.append({"rule": "R-RETBIND", "site": site, "what": "`return %s` bound to a variable before returning" % anchor})
        # R-FOREACH: `X.iter_mut().for_each(|PAT| BODY)` => index loop handing out `&mut` to every item in order
        def split_top(txt):
            """`(a, (b, c))` -> ['a', '(b, c)'] (top-level commas of a parenthesised tuple pattern)"""
            t = txt.strip()
            if not (t.startswith("(") and t.endswith(")")):
                return None
            t = t[1:-1]
            parts, depth, cur0 = [], 0, ""
            for ch in t:
                if ch in "([{":
                    depth += 1
                elif ch in ")]}":
                    depth -= 1
                if ch == "," and depth == 0:
                    parts.append(cur0.strip()); cur0 = ""
                else:
                    cur0 += ch
            if cur0.strip():
                parts.append(cur0.strip())
            return parts
        def chain_recv(call, names):
            """the receiver of `call` must be the method chain `.names[0]().names[1]()…` (no arguments); -> text of the root receiver"""
            cur_span = call["recv"]
            for nm in reversed(names):
                nxt = next((x for x in it["calls"] if x["span"] == cur_span and x["name"] == nm and not x.get("args")), None)
                if nxt is None:
                    return None
                cur_span = nxt["recv"]
            return re.sub(r"\s+", "", src[cur_span[0]:cur_span[1]].decode())
        for n, (cont, inv) in spec.foreachs.items():
            c, call = clos_call(n)
            if call["name"] != "for_each" or len(call["args"]) != 1 or len(c["params"]) != 1 or chain_recv(call, ["iter_mut"]) != re.sub(r"\s+", "", cont):
                raise Undecided("foreach: closure %d is not the argument of `%s.iter_mut().for_each(…)`" % (n, cont))
            pat = src[c["params"][0]["span"][0]:c["params"][0]["span"][1]].decode()
            kv = "__k%d" % n
            common.append((call["span"][0], c["body"][0], "{ let mut %s: usize = 0; while %s < %s.len()\n%s\n{ let %s = %s.nth_mut(%s); " % (kv, kv, cont, inv, pat, cont, kv)))
            common.append((c["body"][1], call["span"][1], "; %s += 1; } }" % kv))
            self.log.append({"rule": "R-FOREACH", "site": site, "what": "`%s.iter_mut().for_each(closure %d)` => index loop over `%s` (nth_mut hands out the items front to back)" % (cont, n, cont)})
        # R-FOLD: `X.iter_mut().enumerate().fold(INIT, |ACC, (IDX, PAT)| BLOCK)` => index loop with the accumulator in a variable
        for n, ((cont, accty), inv) in spec.foldloops.items():
            c, call = clos_call(n)
            if call["name"] != "fold" or len(call["args"]) != 2 or len(c["params"]) != 2 or not c["body_is_block"] or chain_recv(call, ["iter_mut", "enumerate"]) != re.sub(r"\s+", "", cont):
                raise Undecided("foldloop: closure %d is not the argument of `%s.iter_mut().enumerate().fold(init, …)`" % (n, cont))
            acc = src[c["params"][0]["span"][0]:c["params"][0]["span"][1]].decode()
            if not re.match(r"^(mut\s+)?\w+$", acc):
                raise Undecided("foldloop: the accumulator parameter `%s` is not a variable" % acc)
            parts = split_top(src[c["params"][1]["span"][0]:c["params"][1]["span"][1]].decode())
            if parts is None or len(parts) != 2:
                raise Undecided("foldloop: the item parameter is not a pair pattern `(index, item)`")
            init = src[call["args"][0][0]:call["args"][0][1]].decode()
            kv, av = "__k%d" % n, "__acc%d" % n
            common.append((call["span"][0], c["body"][0], "({ let mut %s%s = %s; let mut %s: usize = 0; while %s < %s.len()\n%s\n{ let %s = %s; let %s = %s; let %s = %s.nth_mut(%s); %s = " % (av, (": " + accty) if accty else "", init, kv, kv, cont, inv, acc, av, parts[0], kv, parts[1], cont, kv, av)))
            common.append((c["body"][1], call["span"][1], "; %s += 1; } %s })" % (kv, av)))
            self.log.append({"rule": "R-FOLD", "site": site, "what": "`%s.iter_mut().enumerate().fold(%s, closure %d)` => index loop, accumulator `%s`" % (cont, init, n, av)})
        # ghost text at a statement boundary inside a match arm (anchor: the first arm whose pattern starts with the prefix + a text unique in that arm)
        for prefix, anchor, where, (occ_k, occ_n), text in spec.ats:
            norm = lambda t: re.sub(r"\s+", " ", t).strip()
            if prefix == "":
                arm = {"body": it["body"]}  # no arm named: the anchor is looked for in the whole function body
            else:
                # a path of arms `A > B #2`: the first arm whose pattern starts with A, inside its body the second whose pattern starts with B
                arm, scope = None, it["body"]
                for step in prefix.split(" > "):
                    mm = re.match(r"^(.*?)(?:\s*#(\d+))?$", step.strip())
                    want, kth = norm(mm.group(1)), int(mm.group(2) or 1)
                    cands = [a for a in it.get("arms", []) if a["span"][0] >= scope[0] and a["span"][1] <= scope[1] and norm(src[a["pat"][0]:a["pat"][1]].decode()).startswith(want)]
                    # only the outermost candidates of this scope (an arm nested in another candidate belongs to a deeper step)
                    cands = [a for a in cands if not any(b is not a and b["body"][0] <= a["span"][0] and a["span"][1] <= b["body"][1] for b in cands)]
                    if len(cands) < kth:
                        arm = None
                        break
                    arm = cands[kth - 1]
                    scope = arm["body"]
            if arm is None:
                raise Undecided("at: no match arm `%s…` (lost anchor)" % prefix)
            if where == "end":
                # at the end of the arm's block, whatever its statements are
                if src[arm["body"][0]:arm["body"][0] + 1] != b"{" or src[arm["body"][1] - 1:arm["body"][1]] != b"}":
                    raise Undecided("at: the body of arm `%s` is not a block" % prefix)
                pos = arm["body"][1] - 1
                common.append((pos, pos, "\n" + ghost(text) + "\n"))
                continue
            btxt = src[arm["body"][0]:arm["body"][1]].decode()
            # anchors are compared modulo runs of white space
            pat = r"\s+".join(re.escape(w) for w in anchor.split())
            hits = [m for m in re.finditer(pat, btxt)]
            if len(hits) != occ_n:
                raise Undecided("at: anchor `%s` found %d times in arm `%s…`, expected %d (lost anchor)" % (anchor, len(hits), prefix, occ_n))
            hit = hits[occ_k - 1]
            boff = len(btxt[:hit.start() if where == "before" else hit.end()].encode())
            pos = arm["body"][0] + boff
            common.append((pos, pos, "\n" + ghost(text) + "\n"))
        # R-CLOSPAT: a `&ident` closure parameter becomes a typed variable plus `let ident = *var;` (Verus wants plain variables)
        for (n, k), (var, ty) in spec.closparams.items():
            if n < 1 or n > len(it["closures"]) or k >= len(it["closures"][n - 1]["params"]):
                raise Undecided("closparam: closure %d / parameter %d does not exist (lost anchor)" % (n, k))
            c = it["closures"][n - 1]
            prm = c["params"][k]
            if prm["ident"] is None:
                # any other pattern (a tuple): `|PAT|` => `|var: ty| { let PAT = var; … }`
                pat_txt = src[prm["span"][0]:prm["span"][1]].decode()
                common.append((prm["span"][0], prm["span"][1], "%s: %s" % (var, ty)))
                let = "let %s = %s; " % (pat_txt, var)
                if c["body_is_block"]:
                    common.append((c["body"][0] + 1, c["body"][0] + 1, " " + let))
                else:
                    if n not in spec.closures:
                        raise Undecided("closparam on an expression-bodied closure needs a `closure` contract")
                    common.append((c["body"][0], c["body"][0], let))
                self.log.append({"rule": "R-CLOSPAT", "site": site, "what": "closure %d parameter %d `%s` typed `%s`" % (n, k, pat_txt, ty)})
                continue
            if prm["refdepth"] == 0:
                common.append((prm["span"][0], prm["span"][1], "%s: %s" % (prm["ident"], ty)))
            else:
                common.append((prm["span"][0], prm["span"][1], "%s: %s" % (var, ty)))
                let = "let %s = %s%s; " % (prm["ident"], "*" * prm["refdepth"], var)
                if c["body_is_block"]:
                    common.append((c["body"][0] + 1, c["body"][0] + 1, " " + let))
                else:
                    # the `closure` directive wraps an expression body in braces; put the let inside them
                    if n not in spec.closures:
                        raise Undecided("closparam on an expression-bodied closure needs a `closure` contract")
                    common.append((c["body"][0], c["body"][0], let))
            self.log.append({"rule": "R-CLOSPAT", "site": site, "what": "closure %d parameter %d typed `%s`" % (n, k, ty)})
        # R-FORMUT: `for P in &mut *X` / `for P in X.iter_mut()[.skip(K)]` as an index loop over X
        for n, (cont, start) in spec.forindex.items():
            if n < 1 or n > len(it["loops"]):
                raise Undecided("forindex: loop %d does not exist (lost anchor)" % n)
            lp = it["loops"][n - 1]
            if lp["kind"] != "for":
                raise Undecided("forindex: loop %d is not a for loop" % n)
            etxt = re.sub(r"\s+", "", src[lp["expr"][0]:lp["expr"][1]].decode())
            c0 = re.sub(r"\s+", "", cont)
            shapes = {"&mut*" + c0: "0", c0 + ".iter_mut()": "0", c0 + ".iter_mut().skip(%s)" % re.sub(r"\s+", "", start): start}
            if etxt not in shapes or re.sub(r"\s+", "", shapes[etxt]) != re.sub(r"\s+", "", start):
                raise Undecided("forindex: `%s` is not an iteration over `%s` from `%s`" % (etxt, cont, start))
            pat = src[lp["pat"][0]:lp["pat"][1]].decode()
            if not re.match(r"^\w+$", pat):
                raise Undecided("forindex: loop pattern `%s` is not a variable" % pat)
            kv = "__k%d" % n
            common.append((lp["span"][0], lp["body_start"], "{ let mut %s: usize = %s; while %s < %s.len() " % (kv, start, kv, cont)))
            common.append((lp["body_start"] + 1, lp["body_start"] + 1, " let %s = &mut %s[%s]; " % (pat, cont, kv)))
            common.append((lp["body_end"], lp["body_end"], " %s += 1; " % kv))
            common.append((lp["span"][1], lp["span"][1], " }"))
            self.log.append({"rule": "R-FORMUT", "site": site, "what": "`for %s in %s` => index loop over `%s` from `%s`" % (pat, etxt, cont, start)})
        unspliced_loops = [k + 1 for k in range(len(it["loops"])) if (k + 1) not in spec.loops]
        if unspliced_loops and not spec.external:
            raise Undecided("loop(s) %s without invariant" % unspliced_loops)

        if spec.orguard and not spec.external:
            n_or = 0
            for a in it.get("arms", []):
                if len(a["alts"]) < 2 or a["guard"] is None:
                    continue
                a_s, a_e = a["span"]
                inner = [e for e in common if e[0] >= a["body"][0] and e[1] <= a["body"][1]]
                crossing = [e for e in common if e not in inner and not (e[1] <= a_s or e[0] >= a_e)]
                if crossing:
                    raise Undecided("orguard: an edit crosses the arm boundary")
                common = [e for e in common if e not in inner]
                btxt = apply_edits(src, a["body"][0], a["body"][1], inner, spec.subs, self.log, site, body_subs=body_subs, body_start=it["body"][0])
                gtxt = apply_edits(src, a["guard"][0], a["guard"][1], [], spec.subs, [], site)
                rep = "".join("%s if %s => %s,\n" % (apply_edits(src, al[0], al[1], [], spec.subs, [], site), gtxt, btxt) for al in a["alts"])
                common.append((a_s, a_e, rep))
                n_or += 1
            if n_or:
                self.log.append({"rule": "R-ORGUARD", "site": site, "what": "`A | B if G => X` => one arm per alternative, same guard and body", "count": n_or})
        body_s, body_e = it["body"]
        s, e = it["span"]
        if spec.external and (spec.cases or any(t is not None for t, _ in spec.ensures)):
            # a contracted callee seen from outside: one signature carrying every clause (`case ==> clause`)
            self.emit_view(spec, src, it, base, site)
            return
        self.functions.append(site)
        emitted_any = False
        for suffix, case, props, ens in self.copies(spec):
            nm = base + suffix
            # `__CASE__` in spliced ghost text (loop invariants) stands for the case condition of this copy: a loop that belongs to
            # another case's match arm states `__CASE__, diff is <its variant>` and is vacuous in this copy
            case_when = ("(%s)" % case["when"]) if case else "true"
            eds = [(a, b, r.replace("__CASE__", case_when)) for a, b, r in common]
            eds.append((sig["ident"][0], sig["ident"][1], nm))
            req = list(spec.requires)
            if case:
                req = [case["when"]] + req + case["requires"]
            spec_text = ""
            if req:
                spec_text += "\n    requires\n" + "".join("        %s,\n" % r.strip().rstrip(",") for r in req)
            if ens:
                spec_text += ("\n" if not req else "") + "    ensures\n" + "".join("        %s,\n" % r.strip().rstrip(",") for r in ens)
            if spec.external:
                eds.append((body_s, body_e, spec_text + "{ unimplemented!() }"))
            else:
                eds.append((body_s, body_s, spec_text))
            text = apply_edits(src, s, e, eds, spec.subs, self.log if not emitted_any else [], site, body_subs=body_subs, body_start=it["body"][0])
            if it["vis"] is None and not spec.novis:
                text = "pub " + text.lstrip()
            oid = "%s/%s%s" % (self.unit, spec.label or base, ("#" + suffix[2:]) if suffix else "")
            self.emit("// ---- extracted: %s  (obligation %s; properties %s)" % (site, oid, ",".join(props)))
            start = self.lineno()
            for a in spec.attrs:
                self.emit(a)
            if spec.external:
                self.emit("#[verifier::external_body]")
                self.trusted.append({"kind": "R-EXT", "what": site})
            self.emit(text)
            end = self.lineno() - 1
            if not spec.external:
                self.obligations.append({"id": oid, "fn": site, "vname": nm, "case": case["label"] if case else None, "props": props, "start": start, "end": end, "posed": True, "source": spec.file, "clauses": ens, "callees": callees_of(it)})
            emitted_any = True
        if spec.view and any(sfx for sfx, _, _, _ in self.copies(spec)):
            self.emit_view(spec, src, it, base, site)

    def do_closurefn(self, spec, n):
        src, it = self.idx.find(spec.file, spec.key, kinds=("fn",))
        self.sources.add(spec.file)
        site = "%s::%s#closure%d" % (spec.file, spec.key, n)
        if not spec.header or not spec.name:
            raise RuntimeError("closurefn needs `name` and `header` (%s)" % site)
        if n < 1 or n > len(it["closures"]):
            raise Undecided("closure %d does not exist (lost anchor)" % n)
        c = it["closures"][n - 1]
        m = re.search(r"\bfn\s+" + re.escape(spec.name) + r"\b", spec.header)
        if not m:
            raise RuntimeError("closurefn header does not declare fn %s" % spec.name)
        # the closure's own parameters must be plain variables that the header declares under the same names
        for prm in c["params"]:
            if prm["ident"] is None or prm["refdepth"] != 0:
                raise Undecided("closure %d parameter is not a plain variable" % n)
            if not re.search(r"[(,]\s*(mut\s+)?" + re.escape(prm["ident"]) + r"\s*:", spec.header):
                raise Undecided("closure %d parameter `%s` is not a parameter of the lifted fn" % (n, prm["ident"]))
        inner = [k for k, c2 in enumerate(it["closures"]) if c2["span"][0] > c["span"][0] and c2["span"][1] <= c["span"][1]]
        if inner:
            raise Undecided("closure %d contains closures (outside R-LIFT)" % n)
        for lp in it["loops"]:
            if lp["span"][0] >= c["body"][0] and lp["span"][1] <= c["body"][1]:
                raise Undecided("closure %d contains a loop (outside R-LIFT)" % n)
        eds = []
        for mm in it["macros"]:
            if mm["span"][0] >= c["body"][0] and mm["span"][1] <= c["body"][1]:
                raise Undecided("closure %d contains the macro %s! (outside R-LIFT)" % (n, mm["name"]))
        self.functions.append(site)
        self.log.append({"rule": "R-LIFT", "site": site, "what": "closure body verified as the body of `%s`" % spec.name})
        emitted_any = False
        for suffix, case, props, ens in self.copies(spec):
            nm = spec.name + suffix
            req = list(spec.requires)
            if case:
                req = [case["when"]] + req + case["requires"]
            spec_text = ""
            if req:
                spec_text += "\n    requires\n" + "".join("        %s,\n" % r.strip().rstrip(",") for r in req)
            if ens:
                spec_text += ("\n" if not req else "") + "    ensures\n" + "".join("        %s,\n" % r.strip().rstrip(",") for r in ens)
            body = apply_edits(src, c["body"][0], c["body"][1], eds, spec.subs, self.log if not emitted_any else [], site)
            header = spec.header[:m.start()] + "fn " + nm + spec.header[m.end():]
            oid = "%s/%s%s" % (self.unit, spec.label or spec.name, ("#" + suffix[2:]) if suffix else "")
            self.emit("// ---- extracted (R-LIFT, closure %d): %s  (obligation %s; properties %s)" % (n, site, oid, ",".join(props)))
            start = self.lineno()
            self.emit(header + spec_text + "{\n" + body + "\n}")
            end = self.lineno() - 1
            self.obligations.append({"id": oid, "fn": site, "vname": nm, "case": case["label"] if case else None, "props": props, "start": start, "end": end, "posed": True, "source": spec.file, "clauses": ens, "callees": callees_of(it, c["body"])})
            emitted_any = True

    def emit_view(self, spec, src, it, base, site):
        """caller view: external_body signature carrying `case ==> clause` of all cases."""
        sig = it["sig"]
        eds = attr_edits(it["attrs"], [], site)
        if it["vis"] is not None:
            eds.append((it["vis"][0], it["vis"][1], "pub"))
        if spec.recv is not None:
            r = [x for x in sig["inputs"] if x["receiver"]][0]
            eds.append((r["span"][0], r["span"][1], spec.recv))
        if sig["ret"] is not None and not spec.noret:
            eds.append((sig["ret"][0], sig["ret"][0], "(%s: " % spec.ret))
            eds.append((sig["ret"][1], sig["ret"][1], ")"))
        if sig["asyncness"] is not None:
            eds.append((sig["asyncness"][0], sig["asyncness"][1], ""))
        eds.append((sig["ident"][0], sig["ident"][1], base))
        req = list(spec.requires)
        ens = [t for _, t in spec.ensures]
        for c in spec.cases:
            if c.get("noview"):
                continue
            # a case's own preconditions bind the caller in that case
            for t in c["requires"]:
                req.append("(%s) ==> (%s)" % (c["when"], t.strip().rstrip(",")))
            for _, t in c["ensures"]:
                # a clause written `/*noview*/ …` is proved (or a known finding) here but not handed to callers
                if t.strip().startswith("/*noview*/"):
                    continue
                ens.append("(%s) ==> (%s)" % (c["when"], t.strip().rstrip(",")))
        spec_text = ""
        if req:
            spec_text += "\n    requires\n" + "".join("        %s,\n" % r.strip().rstrip(",") for r in req)
        if ens:
            spec_text += "    ensures\n" + "".join("        %s,\n" % r.strip().rstrip(",") for r in ens)
        eds.append((it["body"][0], it["body"][1], spec_text + "{ unimplemented!() }"))
        text = apply_edits(src, it["span"][0], it["span"][1], eds, spec.subs, [], site)
        if it["vis"] is None:
            text = "pub " + text.lstrip()
        self.emit("// ---- caller view of %s: conjunction of the per-case contracts proved above" % site)
        self.emit("#[verifier::external_body]")
        self.emit(text)
        self.trusted.append({"kind": "caller-view", "what": site})


ASSUME_PAT = re.compile(r"\b(assume\s*\(|admit\s*\(|external_body|assume_specification|axiom\b|external_fn_specification|external_type_specification|\bexternal\b)")


def callees_of(it, span=None):
    """names of everything the function (or the part of it inside `span`) calls: methods, path calls, macros (with the
    `;` shape). Used to tell a proof that broke from a function that now calls something it did not call before."""
    def inside(sp):
        return span is None or (sp[0] >= span[0] and sp[1] <= span[1])
    out = set()
    for c in it.get("calls", []):
        if inside(c["span"]):
            out.add("." + c["name"])
    for c in it.get("pathcalls", []):
        last = c["name"].split("::")[-1]
        if inside(c["span"]) and not last[:1].isupper():
            out.add(c["name"])
    for m in it.get("macros", []):
        if inside(m["span"]):
            out.add(m["name"] + "!" + (";" if m.get("semi") else ""))
    # closure literals: Verus knows nothing about the result of a closure without a spliced contract, so a closure
    # that was not there when the proof was found is an unspecified callee like any other
    k = 0
    for c in it.get("closures", []):
        if inside(c["span"]) and (span is None or c["span"] != list(span) and c["body"] != list(span)):
            k += 1
            out.add("closure#%d!" % k)
    return sorted(out)


def assumption_scan(text):
    """mechanical scan of everything fed to Verus"""
    counts = {}
    samples = {}
    for n, ln in enumerate(text.split("\n"), 1):
        code = ln.split("//")[0]
        for m in ASSUME_PAT.finditer(code):
            k = m.group(1).strip(" (")
            counts[k] = counts.get(k, 0) + 1
            samples.setdefault(k, []).append(n)
    return {k: {"count": v, "first_lines": samples[k][:5]} for k, v in counts.items()}


def generate(unit_path):
    g = Generator(unit_path)
    text = g.run()
    g.ghost_regions = ghost_regions(text)
    ids = [o["id"] for o in g.obligations]
    dup = sorted(set(i for i in ids if ids.count(i) > 1))
    if dup:
        raise RuntimeError("duplicate obligation ids in %s: %s" % (unit_path, dup))
    return g, text
