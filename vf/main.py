#!/usr/bin/env python3
"""./check <Cnn> [--tier quick|thorough] [--replay FILE] — see DESIGN.md §5 for the verdict logic."""
import sys, os, json, time, argparse, subprocess, shutil, hashlib, concurrent.futures, traceback

HERE = os.path.dirname(os.path.abspath(__file__))
sys.path.insert(0, HERE)
import gen, verus  # noqa
from config import PROPS, UNIT_TRUST, COMMON_TRUST  # noqa

VERIF = gen.VERIF
WORK = os.path.join(VERIF, "work")
CACHE = os.path.join(VERIF, ".cache")
EXTRACT_DIR = os.path.join(VERIF, "extract")
BOUNDED_DIR = os.path.join(VERIF, "bounded")
TARGET = os.path.join(CACHE, "target")


def sh(cmd, **kw):
    return subprocess.run(cmd, capture_output=True, text=True, **kw)


def ensure_extractor():
    binp = gen.EXTRACT_BIN
    src = os.path.join(EXTRACT_DIR, "src", "main.rs")
    if os.path.exists(binp) and os.path.getmtime(binp) >= os.path.getmtime(src):
        return
    env = dict(os.environ, CARGO_NET_OFFLINE="true")
    r = sh(["cargo", "build", "--release", "--offline"], cwd=EXTRACT_DIR, env=env)
    if r.returncode != 0:
        print("INTERNAL: cannot build extractor\n" + r.stderr[-2000:])
        sys.exit(2)


def load_known():
    p = os.path.join(VERIF, "known_findings.json")
    if os.path.exists(p):
        return json.load(open(p))
    return {"findings": [], "fixed": []}


def load_baseline():
    p = os.path.join(VERIF, "baseline_obligations.json")
    if os.path.exists(p):
        return set(json.load(open(p))["discharged"])
    return None


def load_baseline_callees():
    p = os.path.join(VERIF, "baseline_obligations.json")
    if os.path.exists(p):
        return json.load(open(p)).get("callees", {})
    return {}


VSTD_EXACT = {".saturating_sub", ".saturating_add", ".checked_sub", ".checked_add", ".wrapping_sub", ".wrapping_add", ".min", ".max", ".clamp",
              ".is_some", ".is_none", ".unwrap", ".unwrap_or", ".expect", ".take", ".as_ref", ".cmp", ".len", ".is_empty"}


def has_contract_in_unit(callee, text):
    """is `callee` (".method", "path::fn", "macro!") something this unit defines or specifies itself?"""
    import re as _re
    if callee.endswith("!") or callee.endswith("!;"):
        return False  # a macro expands to library calls the unit does not see by name
    name = callee.lstrip(".").split("::")[-1]
    # std methods whose vstd specification is exact (checked: a function that returns `a.saturating_sub(b)` etc. verifies
    # against the mathematical definition): calling one of them does not make a proof incomparable
    if callee in VSTD_EXACT:
        return True
    return bool(_re.search(r"\bfn\s+" + _re.escape(name) + r"\b", text) or _re.search(r"[:\[]" + _re.escape(name) + r"\]", text))


def run_unit(unit, workdir, canary=False, extra=None, rlimit=None):
    path = os.path.join(VERIF, "units", unit + ".vrs")
    g, text = gen.generate(path)
    out = os.path.join(workdir, unit + ".rs")
    with open(out, "w") as f:
        f.write(text)
    res = verus.run_verus(out, extra=extra, rlimit=rlimit)
    per, stray, frontend, vr = verus.analyse(res, g.obligations, ghost_regions=getattr(g, "ghost_regions", None))
    return {"unit": unit, "gen": g, "text": text, "res": res, "per": per, "stray": stray, "frontend": frontend, "vr": vr, "file": out}


def run_canaries(unit, workdir, ur):
    """Vacuity guard: every posed obligation is re-submitted as an additional copy `<name>__canary` whose
    postcondition list starts with `false`; Verus must reject each copy. (The copies are added next to the
    originals, never replace them: a caller must not see a callee whose contract is `false`.)"""
    import re as _re
    g = ur["gen"]
    lines = ur["text"].split("\n")
    copies = []  # (insert_after_line_index, id, copy_lines)
    skipped = []
    for o in g.obligations:
        if not o.get("posed"):
            continue
        seg = lines[o["start"] - 1:o["end"]]
        vname = o.get("vname")
        txt = "\n".join(seg)
        m = _re.search(r"\bfn\s+" + _re.escape(vname) + r"\b", txt)
        k = next((i for i, ln in enumerate(seg) if ln.strip() == "ensures"), None)
        # methods of trait impls cannot be duplicated under another name
        if m is None or k is None or not _re.search(r"\bpub\s+(?:async\s+)?fn\s+" + _re.escape(vname) + r"\b", txt):
            skipped.append(o["id"])
            continue
        seg2 = list(seg)
        seg2.insert(k + 1, "        false,  // CANARY")
        t2 = "\n".join(seg2)
        t2 = _re.sub(r"\bfn\s+" + _re.escape(vname) + r"\b", "fn " + vname + "__canary", t2, count=1)
        copies.append((o["end"], o["id"], ["// CANARY-BEGIN " + o["id"]] + t2.split("\n") + ["// CANARY-END " + o["id"]]))
    new = list(lines)
    for end, oid, cl in sorted(copies, key=lambda x: -x[0]):
        new[end:end] = cl
    path = os.path.join(workdir, unit + "_canary.rs")
    open(path, "w").write("\n".join(new))
    res = verus.run_verus(path, multiple_errors=1)
    obs = []
    cur = None
    for n, ln in enumerate(new, 1):
        if ln.startswith("// CANARY-BEGIN "):
            cur = (ln[len("// CANARY-BEGIN "):], n)
        elif ln.startswith("// CANARY-END ") and cur:
            obs.append({"id": cur[0], "posed": True, "start": cur[1], "end": n, "vname": None, "props": []})
            cur = None
    per, stray, frontend, vr = verus.analyse(res, obs)
    bad = [oid for oid, p in per.items() if p["verdict"] != "failed"]
    rej = [oid for oid, p in per.items() if p["verdict"] == "failed"]
    return {"submitted": len(obs), "rejected": len(rej), "accepted_false": bad, "not_canaried_trait_methods": skipped, "frontend": [f["message"] for f in frontend][:2]}


def build_bounded():
    if not os.path.isdir(BOUNDED_DIR):
        return None
    env = dict(os.environ, CARGO_NET_OFFLINE="true", CARGO_TARGET_DIR=TARGET)
    r = sh(["cargo", "build", "--release", "--offline"], cwd=BOUNDED_DIR, env=env)
    if r.returncode != 0:
        return {"error": r.stderr[-3000:]}
    return {"bin": os.path.join(TARGET, "release", "bounded")}


def run_bounded(binp, name, tier, seed, prop, extra_args=None, timeout=3000):
    outp = os.path.join(WORK, "%s.%s.bounded.json" % (prop, name))
    cmd = [binp, name, "--tier", tier, "--seed", str(seed), "--out", outp, "--known", os.path.join(VERIF, "known_findings.json"), "--focus", prop] + (extra_args or [])
    t0 = time.time()
    try:
        r = sh(cmd, timeout=timeout)
    except subprocess.TimeoutExpired:
        return {"name": name, "error": "timeout", "cmd": " ".join(cmd)}
    d = None
    try:
        d = json.load(open(outp))
    except Exception:
        pass
    if d is None:
        return {"name": name, "error": "no output (rc=%s): %s" % (r.returncode, (r.stderr or r.stdout)[-1500:]), "cmd": " ".join(cmd)}
    d["name"] = name
    d["cmd"] = " ".join(cmd)
    d["wall_s"] = time.time() - t0
    return d


UNSAFE_TOKENS = ["unsafe", "mem::forget", "ManuallyDrop", "ptr::", "from_raw", "into_raw", "unreachable_unchecked", "transmute", "MaybeUninit", "forget("]


def unsafe_scan():
    """token scan of the three crates' src for unsafe-related sites, compared with the audited list"""
    import re as _re
    found = {}
    for crate in ("eyeball", "eyeball-im", "eyeball-im-util"):
        root = os.path.join(gen.REPO, crate, "src")
        for dp, _, fns in os.walk(root):
            for fn in sorted(fns):
                if not fn.endswith(".rs"):
                    continue
                rel = os.path.relpath(os.path.join(dp, fn), gen.REPO)
                for ln in open(os.path.join(dp, fn)).read().split("\n"):
                    code = ln.split("//")[0]
                    for t in UNSAFE_TOKENS:
                        c = code.count(t)
                        if c:
                            found.setdefault(rel, {})
                            found[rel][t] = found[rel].get(t, 0) + c
    audited = json.load(open(os.path.join(VERIF, "audited_unsafe.json")))["sites"]
    new = []
    for f, toks in found.items():
        for t, c in toks.items():
            if audited.get(f, {}).get(t, 0) < c:
                new.append("%s: `%s` x%d (audited: %d)" % (f, t, c, audited.get(f, {}).get(t, 0)))
    return {"found": found, "new_sites": new}


def scratch_copy():
    base = os.environ.get("TMPDIR", "/var/tmp")
    d = os.path.join(base, "eyeball-verif.%d" % os.getpid())
    shutil.rmtree(d, ignore_errors=True)
    os.makedirs(d)
    subprocess.run("cd %s && git ls-files -z --cached --others --exclude-standard | xargs -0 -I{} cp --parents {} %s 2>/dev/null" % (gen.REPO, d), shell=True)
    return d


def run_kani(harness_file, target_rel, package, harnesses, timeout):
    d = scratch_copy()
    try:
        with open(os.path.join(d, target_rel), "a") as f:
            f.write(open(os.path.join(VERIF, "kani", harness_file)).read())
        cmd = ["cargo", "kani", "-p", package] + sum([["--harness", h] for h in harnesses], [])
        t0 = time.time()
        env = dict(os.environ, CARGO_NET_OFFLINE="true")
        try:
            r = subprocess.run(cmd, cwd=d, env=env, capture_output=True, text=True, timeout=timeout)
            out = r.stdout + r.stderr
            rc = r.returncode
        except subprocess.TimeoutExpired as e:
            out = (e.stdout or b"").decode() if isinstance(e.stdout, bytes) else (e.stdout or "")
            rc = -9
        import re as _re
        m = _re.findall(r"\*\* (\d+) of (\d+) failed", out)
        ok = rc == 0 and "VERIFICATION:- SUCCESSFUL" in out and "VERIFICATION:- FAILED" not in out and ("Complete - %d successfully verified harnesses, 0 failures" % len(harnesses)) in out
        failed_checks = _re.findall(r"Check \d+: (\S+)\n\s+- Status: FAILURE\n\s+- Description: \"([^\n]*)\"", out)
        built = "error: could not compile" not in out and "error[E" not in out
        return {"cmd": " ".join(cmd) + "  (in a scratch copy of /repo with kani/%s appended to %s)" % (harness_file, target_rel), "ok": ok, "built": built, "rc": rc, "checks": [int(x[1]) for x in m], "failed_checks": failed_checks[:10], "solver_wall_s": round(time.time() - t0, 1), "tail": out[-1500:] if not ok else ""}
    finally:
        shutil.rmtree(d, ignore_errors=True)


def run_miri(timeout=3000):
    env = dict(os.environ, CARGO_NET_OFFLINE="true", CARGO_TARGET_DIR=os.path.join(CACHE, "miri-target"), MIRIFLAGS="-Zmiri-disable-isolation -Zmiri-tree-borrows")
    cmd = ["cargo", "+nightly", "miri", "run", "--offline", "--", "miri-set", "--known", os.path.join(VERIF, "known_findings.json")]
    t0 = time.time()
    try:
        r = subprocess.run(cmd, cwd=BOUNDED_DIR, env=env, capture_output=True, text=True, timeout=timeout)
        out = r.stdout + r.stderr
        rc = r.returncode
    except subprocess.TimeoutExpired:
        return {"cmd": " ".join(cmd), "ok": False, "built": True, "error": "timeout"}
    import re as _re
    m = _re.search(r"miri-set: (\d+) histories executed, (\d+) failed", out)
    ub = [l for l in out.split("\n") if l.startswith("error: Undefined Behavior") or "memory leaked" in l or l.startswith("error: memory")]
    return {"cmd": "MIRIFLAGS='-Zmiri-disable-isolation -Zmiri-tree-borrows' " + " ".join(cmd), "ok": rc == 0 and m is not None and m.group(2) == "0" and not ub, "built": "error: could not compile" not in out, "histories": int(m.group(1)) if m else 0, "undefined_behaviour_or_leak": ub[:5], "wall_s": round(time.time() - t0, 1), "tail": out[-1500:] if rc != 0 else ""}


def main():
    ap = argparse.ArgumentParser()
    ap.add_argument("prop")
    ap.add_argument("--tier", default=os.environ.get("VERIF_TIER", "quick"))
    ap.add_argument("--replay")
    ap.add_argument("--update-baseline", action="store_true")
    ap.add_argument("--keep", action="store_true")
    a = ap.parse_args()
    seed = int(os.environ.get("VERIF_SEED", "0") or 0)
    tier = a.tier if a.tier in ("quick", "thorough") else "quick"
    prop = a.prop
    if prop not in PROPS:
        print("unknown or unclaimed property %s" % prop)
        sys.exit(2)
    cfg = PROPS[prop]
    t0 = time.time()
    os.makedirs(WORK, exist_ok=True)
    workdir = os.path.join(WORK, "%s.%d" % (prop, os.getpid()))
    os.makedirs(workdir, exist_ok=True)
    ensure_extractor()

    if a.replay:
        return replay(prop, cfg, a.replay)

    known = load_known()
    baseline = load_baseline()
    baseline_callees = load_baseline_callees()
    known_ob = {(k["property"], k["obligation"]): k for k in known.get("findings", []) if "obligation" in k}

    # ---- 1. proofs
    units = cfg.get("units", [])
    results = {}
    with concurrent.futures.ThreadPoolExecutor(max_workers=max(1, min(8, len(units) or 1))) as ex:
        futs = {ex.submit(run_unit, u, workdir): u for u in units}
        for f in concurrent.futures.as_completed(futs):
            u = futs[f]
            try:
                results[u] = f.result()
            except Exception as e:
                print("INTERNAL: unit %s: %s" % (u, e))
                traceback.print_exc()
                sys.exit(2)

    obligations = []  # dict(id, verdict, ...)
    internal = []
    unstable_lemmas = []
    for u in units:
        r = results[u]
        stray_now = r["stray"]
        if stray_now and all(x["kind"] == "rlimit" for x in stray_now):
            # a lemma ran out of resources: solver instability (the lemma text does not depend on /repo); retry at 4x
            # rlimit under other seeds before calling it an error of the machinery
            for sd in (1, 2, 3):
                r2 = run_unit(u, workdir, extra=["--smt-option", "smt.random_seed=%d" % sd], rlimit=40)
                if not r2["frontend"] and not r2["stray"]:
                    stray_now = []
                    unstable_lemmas.append(u)
                    break
                if r2["stray"] and not all(x["kind"] == "rlimit" for x in r2["stray"]):
                    stray_now = r2["stray"]
                    break
        if stray_now:
            # errors outside any obligation: lemmas / prelude broken -> machinery error, never an alarm
            internal.append("unit %s: %d verifier error(s) outside extracted code (lemma/prelude): %s" % (u, len(stray_now), stray_now[0]["message"]))
        for o in r["gen"].obligations:
            if prop not in o["props"]:
                continue
            rec = {"id": o["id"], "function": o["fn"], "unit": u, "backend": "verus-z3", "case": o.get("case"), "callees": o.get("callees")}
            if o.get("clauses"):
                # the postconditions this obligation asks Verus to discharge (contract text of the unit template)
                rec["ensures"] = [" ".join(c.split())[:400] for c in o["clauses"]]
            if not o.get("posed"):
                rec["verdict"] = "undecided"
                rec["reason"] = o.get("reason", "could not be posed")
            else:
                p = r["per"][o["id"]]
                rec["ms"] = p.get("ms")
                rec["rlimit"] = p.get("rlimit")
                rec["messages"] = p["messages"][:4]
                _errs = [m for m in p["messages"] if m.get("kind") == "error"]
                rec["proof_step_failed"] = [m for m in _errs if m.get("proof_step")][:2]
                v = p["verdict"]
                if v == "notrun":
                    rec["verdict"] = "undecided"
                    fe = r["frontend"][:1]
                    rec["reason"] = "verifier front end rejected the unit: %s" % (fe[0]["message"] if fe else r["res"]["raw_err_tail"][-300:])
                elif v == "rlimit":
                    rec["verdict"] = "rlimit"
                else:
                    rec["verdict"] = v
            obligations.append(rec)

    # retry failed / rlimit obligations with other seeds and 4x rlimit (solver instability must not raise an alarm)
    need_retry = sorted(set(o["unit"] for o in obligations if o["verdict"] in ("failed", "rlimit") and (prop, o["id"]) not in known_ob))
    unstable = []
    for u in need_retry:
        still = set(o["id"] for o in obligations if o["unit"] == u and o["verdict"] in ("failed", "rlimit") and (prop, o["id"]) not in known_ob)
        for sd in (1, 2, 3):
            if not still:
                break
            r2 = run_unit(u, workdir, extra=["--smt-option", "smt.random_seed=%d" % sd], rlimit=40)
            for oid in list(still):
                p2 = r2["per"].get(oid)
                if p2 and p2["verdict"] == "discharged":
                    still.discard(oid)
                    unstable.append(oid)
        for o in obligations:
            if o["unit"] == u and o["id"] in unstable:
                o["verdict"] = "discharged"
                o["unstable"] = True
            elif o["unit"] == u and o["verdict"] == "rlimit":
                o["verdict"] = "undecided"
                o["reason"] = "resource limit exceeded also at 4x rlimit under 3 other seeds"

    # canaries
    # canaries on every run (vacuity guard): skipped only for units that already have an undecided/failed front end
    canaries = {}
    if units and not os.environ.get("VERIF_NO_CANARIES"):
        with concurrent.futures.ThreadPoolExecutor(max_workers=max(1, min(8, len(units)))) as ex:
            cf = {ex.submit(run_canaries, u, workdir, results[u]): u for u in units if not results[u]["frontend"]}
            for f2 in concurrent.futures.as_completed(cf):
                canaries[cf[f2]] = f2.result()
        for u in canaries:
            if canaries[u]["frontend"]:
                internal.append("unit %s: canary file rejected by the verifier front end: %s" % (u, canaries[u]["frontend"][:1]))
            if canaries[u]["rejected"] != canaries[u]["submitted"] and not canaries[u]["accepted_false"]:
                internal.append("unit %s: canary bookkeeping mismatch (%d submitted, %d rejected)" % (u, canaries[u]["submitted"], canaries[u]["rejected"]))
            if canaries[u]["accepted_false"]:
                internal.append("unit %s: canary `ensures false` ACCEPTED for %s — contradictory precondition or axiom" % (u, canaries[u]["accepted_false"][:3]))

    # ---- 2. bounded parts
    bounded_results = []
    undecided = [o for o in obligations if o["verdict"] == "undecided"]
    bnames = list(cfg.get("bounded", []))
    for o in undecided:
        for b in cfg.get("fallback", {}).get(o["unit"], []):
            if b not in bnames:
                bnames.append(b)
    violations = []
    failed = [o for o in obligations if o["verdict"] == "failed"]
    finder_names = []
    for o in failed:
        if (prop, o["id"]) in known_ob:
            continue
        for b in cfg.get("fallback", {}).get(o["unit"], []):
            if b not in bnames and b not in finder_names:
                finder_names.append(b)
    if units and "depcheck" not in bnames:
        bnames.append("depcheck")  # the assumed dependency contracts are re-checked against the real crates on every proof run
    bb = None
    if bnames or finder_names:
        bb = build_bounded()
        if bb is None or "error" in bb:
            internal.append("bounded crate does not build against the current /repo tree: %s" % ((bb or {}).get("error", "missing")[-600:]))
            bb = None
    if bb:
        with concurrent.futures.ThreadPoolExecutor(max_workers=8) as ex:
            futs = [ex.submit(run_bounded, bb["bin"], b, tier, seed, prop) for b in bnames + finder_names]
            for f in futs:
                bounded_results.append(f.result())

    # ---- 2b. property-specific extra engines (C20: token scan, Kani, Miri)
    extras = {}
    extra_violations = []
    for ex in cfg.get("extras", []):
        if ex == "unsafe-scan":
            sc = unsafe_scan()
            extras["unsafe_scan"] = sc
        elif ex == "kani-reusable-box":
            k = run_kani("reusable_box_harness.rs", "eyeball-im/src/reusable_box.rs", "eyeball-im", ["reusable_box_set_reuse_and_realloc", "reusable_box_try_set_layout_mismatch_returns_future"], 1200)
            extras["kani_reusable_box"] = k
            if not k["built"]:
                internal.append("Kani harness for reusable_box.rs does not build against the current tree (harness needs adapting): undecided")
            elif not k["ok"]:
                extra_violations.append(("kani:reusable_box", k))
        elif ex == "kani-into-shared" and tier == "thorough":
            k = run_kani("into_shared_harness.rs", "eyeball/src/unique.rs", "eyeball", ["into_shared_keeps_state_and_drops_value_once"], 3000)
            extras["kani_into_shared"] = k
            if not k["built"]:
                internal.append("Kani harness for into_shared does not build against the current tree: undecided")
            elif not k["ok"]:
                extra_violations.append(("kani:into_shared", k))
        elif ex == "miri" and tier == "thorough":
            mr = run_miri()
            extras["miri"] = mr
            if not mr.get("built", True):
                internal.append("bounded crate does not build under Miri")
            elif not mr["ok"]:
                extra_violations.append(("miri", mr))

    # ---- 3. verdicts
    lines = []
    known_hit = []
    for o in failed:
        k = known_ob.get((prop, o["id"]))
        if k:
            lines.append("KNOWN-FINDING: property=%s %s (%s)" % (prop, o["id"], k["what"]))
            known_hit.append(o["id"])
            o["verdict"] = "known-finding"
            continue
        if baseline is not None and o["id"] not in baseline:
            # never proved on the pinned tree: the contract is not established -> undecided, not an alarm
            o["verdict"] = "undecided"
            o["reason"] = "obligation is not in baseline_obligations.json (never discharged on the pinned tree)"
            continue
        # violation: look for a concrete input among the bounded runs
        cex = None
        for br in bounded_results:
            for fl in br.get("failures", []):
                if not fl.get("known") and prop in fl.get("properties", []):
                    cex = {"finder": br["name"], **fl}
                    break
            if cex:
                break
        if cex is None:
            # No failing input. A proof that no longer goes through is a violation only if the function still calls what
            # it called when the proof was found: a call to something new that this unit states no contract for (a std
            # function, another form of a macro, a new private helper) means the proof cannot be expected to carry over.
            base_c = baseline_callees.get(o["id"])
            now_c = o.get("callees")
            if base_c is not None and now_c is not None:
                ext = [c for c in now_c if c not in base_c and not has_contract_in_unit(c, results[o["unit"]]["text"])]
                if ext:
                    o["verdict"] = "undecided"
                    o["reason"] = "the proof did not carry over, the function now calls %s (not called when the baseline was taken, no contract in this unit), and the bounded run found no failing input" % ", ".join("`%s`" % c for c in ext[:4])
                    continue
            # ... or if a step of the proof script spliced into the function fails (an assert, the precondition of a lemma call):
            # the script was written for the code as it was. Once one of its steps does not go through, what comes after it
            # (including the postcondition) cannot be expected to, so this is a proof that was not re-found, not evidence against
            # the code -- as long as the bounded run, too, finds nothing. A contract clause that fails while every step of the
            # script still goes through stays a violation.
            ps = o.get("proof_step_failed") or []
            if ps:
                o["verdict"] = "undecided"
                o["reason"] = "the spliced proof script no longer fits the code (%s), and the bounded run found no failing input" % "; ".join("%s at generated line %s: %s" % (m["message"], [l for l, _ in m["lines"]][-1:], (m.get("text") or [""])[0][:80]) for m in ps)
                continue
        rp = os.path.join(VERIF, "replays", "%s-%s.json" % (prop, o["id"].replace("/", "_").replace("#", "_")))
        os.makedirs(os.path.dirname(rp), exist_ok=True)
        json.dump({"property": prop, "obligation": o["id"], "function": o["function"], "verifier": "verus", "verifier_output": o.get("messages"), "input": cex.get("input") if cex else None, "bounded_check": cex.get("finder") if cex else None, "expected": cex.get("expected") if cex else None, "observed": cex.get("observed") if cex else None, "note": None if cex else "no-failing-input-found"}, open(rp, "w"), indent=1)
        violations.append((rp, cex is not None, o["id"]))
    for br in bounded_results:
        if br.get("error"):
            internal.append("bounded check %s: %s" % (br["name"], br["error"]))
            continue
        if br["name"] == "depcheck":
            if br.get("failures"):
                internal.append("depcheck: an assumed prelude contract disagrees with the real dependency: %s (%s): expected %s, observed %s" % (br["failures"][0]["classification"], br["failures"][0]["input"].get("input"), br["failures"][0]["expected"], br["failures"][0]["observed"]))
            continue
        for fl in br.get("failures", []):
            if prop not in fl.get("properties", [fl.get("property")]):
                continue
            if fl.get("known"):
                msg = "KNOWN-FINDING: property=%s %s" % (prop, fl["known"])
                if msg not in lines:
                    lines.append(msg)
                known_hit.append(fl.get("classification"))
                continue
            if br["name"] in finder_names and br["name"] not in bnames:
                continue  # only used as counterexample finder
            rp = os.path.join(VERIF, "replays", "%s-bounded-%s-%s.json" % (prop, br["name"], hashlib.sha1(json.dumps(fl.get("input"), sort_keys=True).encode()).hexdigest()[:10]))
            os.makedirs(os.path.dirname(rp), exist_ok=True)
            json.dump({"property": prop, "obligation": "bounded:%s" % br["name"], "classification": fl.get("classification"), "input": fl.get("input"), "expected": fl.get("expected"), "observed": fl.get("observed"), "bounded_check": br["name"]}, open(rp, "w"), indent=1)
            if not any(v[2] == "bounded:" + br["name"] for v in violations):
                violations.append((rp, True, "bounded:" + br["name"]))

    for name, info in extra_violations:
        rp = os.path.join(VERIF, "replays", "%s-%s.json" % (prop, name.replace(":", "_")))
        os.makedirs(os.path.dirname(rp), exist_ok=True)
        json.dump({"property": prop, "obligation": name, "verifier": name.split(":")[0], "verifier_output": info, "input": None, "note": "no-failing-input-found"}, open(rp, "w"), indent=1)
        violations.append((rp, False, name))
    if extras.get("unsafe_scan", {}).get("new_sites"):
        for sname in extras["unsafe_scan"]["new_sites"]:
            lines.append("UNDECIDED property=%s obligation=unsafe-scan reason=new unsafe-related site not in the audited list: %s bounded=%s" % (prop, sname, "see bounded/Miri results"))
    n_obl = len(obligations)
    n_dis = sum(1 for o in obligations if o["verdict"] == "discharged")
    n_known = sum(1 for o in obligations if o["verdict"] == "known-finding")
    und = [o for o in obligations if o["verdict"] == "undecided"]
    for o in und:
        bpass = all(not br.get("error") and not [f for f in br.get("failures", []) if not f.get("known") and prop in f.get("properties", [])] for br in bounded_results) and bool(bounded_results)
        lines.append("UNDECIDED property=%s obligation=%s reason=%s bounded=%s" % (prop, o["id"], (o.get("reason") or "")[:200].replace("\n", " "), "pass" if bpass else ("fail" if bounded_results else "none")))

    # ---- 4. evidence
    level = cfg["level"]
    if (und or extras.get("unsafe_scan", {}).get("new_sites")) and level == "proof":
        level = "other"
    solver_s = sum((o.get("ms") or 0) for o in obligations) / 1000.0
    rewrites = []
    scan = {}
    functions = []
    trusted_gen = []
    for u in units:
        g = results[u]["gen"]
        rw = {}
        for e in g.log:
            rw[e["rule"]] = rw.get(e["rule"], 0) + 1
        rewrites.append({"unit": u, "applied": rw})
        scan[u] = gen.assumption_scan(results[u]["text"])
        functions += [f for f in g.functions]
        trusted_gen += ["%s: %s (%s)" % (u, t["what"], t["kind"]) for t in g.trusted]
    my_functions = sorted(set(o["function"] for o in obligations))
    bsum = []
    evals = 0
    distinct = 0
    samples = []
    for br in bounded_results:
        if br.get("error"):
            bsum.append({"name": br["name"], "error": br["error"]})
            continue
        bsum.append({k: br.get(k) for k in ("name", "scope", "evaluations", "distinct_nontrivial", "rule", "exhaustive", "wall_s", "cmd") if k in br})
        bsum[-1]["failures"] = len(br.get("failures", []))
        evals += br.get("evaluations", 0)
        distinct += br.get("distinct_nontrivial", 0)
        samples += [{"bounded": br["name"], "case": s} for s in br.get("samples", [])[:3]]
    ob_samples = [{"obligation": o["id"], "function": o["function"], "verdict": o["verdict"], "backend": o["backend"], "ms": o.get("ms")} for o in obligations[:6]]
    cov = {
        "obligations": n_obl - n_known,
        "discharged": n_dis,
        "obligations_posed_including_known_findings": n_obl,
        "known_findings": n_known,
        "undecided": len(und),
        "checker_cmd": "verus <generated unit>.rs --triggers-mode silent --output-json --time --error-format=json  (units: %s; regenerated from %s on this run)" % (",".join(units), gen.REPO),
        "trusted_base": COMMON_TRUST + [t for u in units for t in UNIT_TRUST.get(u, [])] + trusted_gen,
        "functions_under_contract": my_functions,
        "obligation_list": [{k: o.get(k) for k in ("id", "function", "case", "backend", "verdict", "ms", "rlimit", "unstable", "reason", "ensures") if o.get(k) is not None} for o in obligations],
        "solver_time_s": round(solver_s, 3),
        "verus_runs": [{"unit": u, "verified_items": (results[u]["vr"] or {}).get("verified"), "errors": (results[u]["vr"] or {}).get("errors"), "wall_s": round(results[u]["res"]["wall_s"], 2), "generated_lines": results[u]["text"].count("\n"), "sources": sorted(results[u]["gen"].sources)} for u in units],
        "rewrites_applied": rewrites,
        "assumption_scan": scan,
        "canaries": canaries,
        "unstable_lemmas": unstable_lemmas,
        "bounded": bsum,
        "samples": ob_samples + samples,
        "known_findings_hit": sorted(set(x for x in known_hit if x)),
        "unstable_obligations": unstable,
        "explanation": cfg.get("explanation", cfg.get("text", "")),
        "extra_engines": extras,
    }
    if bounded_results:
        cov["evaluations"] = evals
        cov["distinct_nontrivial"] = distinct
        cov["rule"] = "; ".join("%s: %s" % (b["name"], b.get("rule", "")) for b in bsum if "rule" in b)
        cov["exhaustive"] = all(b.get("exhaustive", False) for b in bsum if "error" not in b)
    if level == "proof" and n_obl == 0:
        internal.append("no proof obligation generated for %s (vacuity guard)" % prop)
    ev = {
        "property_id": prop,
        "tier": tier,
        "seed": seed,
        "level": level,
        "coverage": cov,
        "assumptions": cfg.get("assumptions", []),
        "wall_s": round(time.time() - t0, 2),
        "violations": len(violations),
    }
    os.makedirs(os.path.join(VERIF, "evidence"), exist_ok=True)
    json.dump(ev, open(os.path.join(VERIF, "evidence", prop + ".json"), "w"), indent=1)

    if a.update_baseline:
        p = os.path.join(VERIF, "baseline_obligations.json")
        cur = json.load(open(p)) if os.path.exists(p) else {"discharged": []}
        s = set(cur["discharged"]) | set(o["id"] for o in obligations if o["verdict"] == "discharged")
        cal = cur.get("callees", {})
        for o in obligations:
            if o["verdict"] == "discharged" and o.get("callees") is not None:
                cal[o["id"]] = o["callees"]
        json.dump({"discharged": sorted(s), "callees": {k: cal[k] for k in sorted(cal)}}, open(p, "w"), indent=0)

    for ln in lines:
        print(ln)
    print("%s tier=%s: %d obligations, %d discharged, %d known findings, %d undecided; bounded: %s; %.1fs" % (prop, tier, n_obl, n_dis, n_known, len(und), ", ".join("%s=%s evals" % (b["name"], b.get("evaluations")) for b in bsum) or "-", time.time() - t0))
    if not a.keep:
        shutil.rmtree(workdir, ignore_errors=True)
    if violations:
        for rp, has_input, oid in violations:
            print("VIOLATION property=%s replay=%s%s" % (prop, rp, "" if has_input else " no-failing-input-found"))
        sys.exit(1)
    if internal:
        for m in internal:
            print("INTERNAL: " + m)
        sys.exit(2)
    sys.exit(0)


def replay(prop, cfg, path):
    d = json.load(open(path))
    print("replay of %s: obligation %s" % (path, d.get("obligation")))
    if d.get("verifier_output"):
        print("verifier output:")
        for m in d["verifier_output"]:
            print("   ", m.get("message"), m.get("text"))
    if d.get("input") is None:
        print("no concrete input recorded (no-failing-input-found); re-run the check to re-pose the obligation")
        sys.exit(0)
    bb = build_bounded()
    if not bb or "error" in bb:
        print("INTERNAL: bounded crate does not build")
        sys.exit(2)
    r = subprocess.run([bb["bin"], d["bounded_check"], "--replay", path])
    sys.exit(r.returncode)


if __name__ == "__main__":
    main()
