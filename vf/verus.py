"""Run Verus on a generated single file and map the diagnostics back to obligations."""
import json, os, subprocess, time, re, tempfile, shutil

VERUS = shutil.which("verus") or "verus"


def run_verus(path, extra=None, timeout=600, rlimit=None, threads=None, multiple_errors=8):
    cmd = [VERUS, path, "--triggers-mode", "silent", "--output-json", "--time", "--error-format=json", "--multiple-errors", str(multiple_errors)]
    if rlimit:
        cmd += ["--rlimit", str(rlimit)]
    if threads:
        cmd += ["--num-threads", str(threads)]
    if extra:
        cmd += extra
    t0 = time.time()
    try:
        p = subprocess.run(cmd, capture_output=True, text=True, timeout=timeout, cwd=os.path.dirname(path))
        out, err, rc = p.stdout, p.stderr, p.returncode
        timed_out = False
    except subprocess.TimeoutExpired as e:
        out = e.stdout.decode() if e.stdout else ""
        err = e.stderr.decode() if e.stderr else ""
        rc = -9
        timed_out = True
    wall = time.time() - t0
    res = {"cmd": " ".join(cmd), "rc": rc, "wall_s": wall, "timed_out": timed_out, "diagnostics": [], "json": None, "raw_err_tail": err[-2000:]}
    try:
        res["json"] = json.loads(out)
    except Exception:
        res["json"] = None
    for ln in err.split("\n"):
        ln = ln.strip()
        if not ln.startswith("{"):
            continue
        try:
            d = json.loads(ln)
        except Exception:
            continue
        if d.get("$message_type") == "diagnostic":
            res["diagnostics"].append(d)
    return res


def classify(diag):
    """-> 'error' | 'rlimit' | 'frontend' | 'note'"""
    lvl = diag.get("level")
    msg = diag.get("message", "")
    if lvl in ("note", "help", "warning"):
        return "note"
    if lvl == "error" or lvl == "failure-note":
        if "aborting due to" in msg:
            return "note"
        if "rlimit" in msg.lower() or "resource limit" in msg.lower():
            return "rlimit"
        if any(k in msg for k in ("postcondition not satisfied", "precondition not satisfied", "assertion failed", "possible arithmetic underflow/overflow", "invariant not satisfied", "possible division by zero", "decreases not satisfied", "unreachable", "might fail", "cannot show", "recommendation not met", "loop invariant", "failed to", "not satisfied", "unable to prove")):
            return "error"
        return "frontend"
    return "note"


def analyse(res, obligations, ghost_regions=None):
    """Attach a verdict to every posed obligation.

    verdict: 'discharged' | 'failed' | 'rlimit' | 'notrun'
    Returns (per_obligation dict id->info, stray list, frontend list)
    """
    per = {}
    for o in obligations:
        if o.get("posed"):
            per[o["id"]] = {"verdict": "discharged", "messages": [], "ms": None, "rlimit": None}
    stray = []
    frontend = []
    vr = (res["json"] or {}).get("verification-results") if res["json"] else None
    for d in res["diagnostics"]:
        k = classify(d)
        if k == "note":
            continue
        spans = d.get("spans", [])
        prim = [s for s in spans if s.get("is_primary")] or spans
        hit = None
        # an error belongs to the obligation whose line range contains a span of it (prefer non-clause spans: the exit / call site)
        for s in spans:
            for o in obligations:
                if o.get("posed") and o["start"] <= s["line_start"] <= o["end"]:
                    hit = o
                    break
            if hit:
                break
        info = {"kind": k, "message": d.get("message"), "lines": [(s["line_start"], s.get("label")) for s in spans], "text": [t["text"].strip() for s in spans for t in s.get("text", [])][:4]}
        # a step of the spliced proof script (an assert, the precondition of a lemma call) as opposed to a contract clause:
        # every span of the error that lies in the obligation's own text is inside a marked ghost region
        if hit is not None and ghost_regions is not None and k == "error":
            msg = (d.get("message") or "").lower()
            own = [s["line_start"] for s in spans if hit["start"] <= s["line_start"] <= hit["end"]]
            if own and (msg.startswith("assertion failed") or msg.startswith("precondition not satisfied")) and all(any(a <= ln <= b for a, b in ghost_regions) for ln in own):
                info["proof_step"] = True
        if k == "frontend":
            frontend.append(info)
            continue
        if hit is None:
            stray.append(info)
            continue
        p = per[hit["id"]]
        p["messages"].append(info)
        if k == "rlimit":
            if p["verdict"] == "discharged":
                p["verdict"] = "rlimit"
        else:
            p["verdict"] = "failed"
    # times per function
    vcount = {}
    for o in obligations:
        if o.get("posed") and o.get("vname"):
            vcount[o["vname"]] = vcount.get(o["vname"], 0) + 1
    try:
        for m in res["json"]["times-ms"]["smt"]["smt-run-module-times"]:
            for f in m.get("function-breakdown", []):
                nm = f["function"].split("::")[-1]
                for o in obligations:
                    if o.get("posed") and o.get("vname") == nm:
                        per[o["id"]]["ms"] = f.get("time")
                        per[o["id"]]["rlimit"] = f.get("rlimit")
                        if vcount.get(nm) == 1:  # several methods may share a name: attribute success only when unambiguous
                            per[o["id"]]["smt_success"] = f.get("success")
    except Exception:
        pass
    ok_run = vr is not None and not vr.get("encountered-vir-error", False)
    if not ok_run or frontend:
        for p in per.values():
            p["verdict"] = "notrun"
    else:
        # cross-check: a function the SMT breakdown marks unsuccessful must not be counted as discharged
        for oid, p in per.items():
            if p.get("smt_success") is False and p["verdict"] == "discharged":
                p["verdict"] = "failed"
                p["messages"].append({"kind": "error", "message": "SMT breakdown reports failure without a located diagnostic"})
    return per, stray, frontend, vr
