"""Which units / bounded checks decide which property; trusted-base texts reported in the evidence;
the text that goes into MANIFEST.json (tools/mkmanifest.py renders it)."""

COMMON_TRUST = [
    "Verus 0.2026.09.13 + Z3 (the verifier), rustc, the extractor (syn spans) and the declared rewrite rules of DESIGN.md §3.3",
    "Clone returns an equal value (axiom_clone_eq); machine integers are checked for overflow by Verus, lengths fit usize (axiom_len_fits)",
]

IMBL = "prelude/imbl.rs: imbl::Vector<T> behaves as Seq<T> for the methods used (len,is_empty,get,append,clear,push_*,pop_*,insert,set,remove,truncate,iter,split_at,skip,clone,new); insert/set/remove beyond the end panic (requires); truncate(n>=len) is a no-op — ASSUMED, exercised by the bounded runs on the real crate"
ITERS = "prelude/iters.rs: iterator adapters iter/rev/skip/take/cloned/map/peekable/collect/repeat as Seq operations — ASSUMED"
SMALLVEC = "prelude/smallvec.rs: SmallVec / ArrayVec are sequences; ArrayVec::push panics when full (requires) — ASSUMED"
STD = "prelude/std.rs: assume_specification for mem::replace, Option::replace, Result::unwrap_or, usize::from(bool); cmp::min stand-in — ASSUMED"

UNIT_TRUST = {
    "head": [IMBL, ITERS, SMALLVEC, STD, "R-INST: S::Item instantiated to VectorDiff<T> (single-diff container) in update_limit/constructors"],
    "tail": [IMBL, ITERS, SMALLVEC, STD, "R-INST: element type instantiated to T"],
    "skip": [IMBL, ITERS, SMALLVEC, STD, "R-INST: element type instantiated to T"],
}

GLUE = "the adapters' poll_next glue (closure capturing &mut: outside Verus) is decided only by the bounded enumeration, labelled bounded and not counted as proved"
BOUNDED_NOTE = "bounded part: exhaustive small-scope enumeration on the real crates (scope printed in the evidence); it is a bounded stand-in, never counted in obligations/discharged"

PROPS = {
    "C05": {
        "level": "exploration", "units": [], "bounded": ["sub"], "fallback": {},
        "text": "Bounded only so far: every short operation history (all eleven mutators, two-op transactions with every ending) on small vectors, under all poll patterns, replayed against a plain-vector model on the real crates; replica == model at every Pending.",
        "note": "bounded stand-in, exhaustive in the stated scope; channel behaviour is tokio's",
        "technique": "bounded exhaustive enumeration on the real crates (stand-in; contracts for vector.rs/subscriber.rs pending)",
        "assumptions": [BOUNDED_NOTE],
    },
    "C06": {
        "level": "exploration", "units": [], "bounded": ["sub"], "fallback": {},
        "text": "Bounded only so far: capacities 1,2,3,5,16 with all poll patterns so that lag occurs; replica == vector at every Pending, every diff applicable.",
        "note": "bounded stand-in; 'Reset only if more than capacity updates were pending' is tokio's behaviour and is not checked",
        "technique": "bounded exhaustive enumeration on the real crates (stand-in)",
        "assumptions": [BOUNDED_NOTE],
    },
    "C07": {
        "level": "exploration", "units": [], "bounded": ["sub"], "fallback": {},
        "text": "Bounded only so far: two-op transactions with every ending (commit, rollback, drop, rollback then redo and commit) under all poll patterns; contents and received diffs as if abandoned ops never happened; batched subscriber sees only top-level states; never an empty batch.",
        "note": "bounded stand-in, exhaustive in the stated scope",
        "technique": "bounded exhaustive enumeration on the real crates (stand-in)",
        "assumptions": [BOUNDED_NOTE],
    },
    "C08": {
        "level": "exploration", "units": [], "bounded": ["sub"], "fallback": {},
        "text": "Bounded only so far: every enumerated history ends with dropping the vector, with and without a poll in between, lagged or not; the stream must deliver what is pending, end, and the replica must equal the final contents; pending streams must be woken by the drop.",
        "note": "bounded stand-in, exhaustive in the stated scope",
        "technique": "bounded exhaustive enumeration on the real crates (stand-in)",
        "assumptions": [BOUNDED_NOTE],
    },
    "C09": {
        "level": "proof", "units": ["head", "tail", "skip"], "bounded": ["hts"],
        "fallback": {"head": ["hts"], "tail": ["hts"], "skip": ["hts"]},
        "text": "Verus discharges, for all element types, lengths, limits and indices, one obligation per (function, diff variant): handle_diff of Head/Tail/Skip turns an emittable source diff into diffs that are applicable to the old view and rebuild exactly the new view; update_limit/update_count rebuild the view under the new parameter; constructors return the initial view. The poll_next glue is bounded.",
        "note": "prelude stand-ins for imbl/SmallVec/ArrayVec/iterators are assumed contracts; " + GLUE + "; F6 (tail limit decrease from beyond the length) is a known finding",
        "technique": "contract-based deductive verification (Verus) of the extracted real functions; bounded enumeration for the glue",
        "assumptions": [GLUE],
    },
    "C10": {
        "level": "exploration", "units": [], "bounded": ["filter"], "fallback": {},
        "text": "Bounded only (filter.rs mutates its index table from inside closures, which Verus rejects): all 8 pass/fail tables x all short histories x both flavours; rebuilt view == filter_map(source) at every Pending, every diff applicable, stream ends with the source.",
        "note": "bounded stand-in, exhaustive in the stated scope; nothing is counted as proved",
        "technique": "bounded exhaustive enumeration on the real crates (Verus cannot take filter.rs: closures capturing &mut)",
        "assumptions": [BOUNDED_NOTE],
    },
    "C11": {
        "level": "exploration", "units": [], "bounded": ["sort"], "fallback": {},
        "text": "Bounded only (sort.rs: closures capturing &mut, binary_search_by with caller comparator): three flavours x key tables with ties x all short histories; rebuilt view is a permutation of the source ordered by the comparison at every Pending.",
        "note": "bounded stand-in, exhaustive in the stated scope; F4 (Truncate arm) is a known finding pinned by existing tests",
        "technique": "bounded exhaustive enumeration on the real crates (Verus cannot take sort.rs)",
        "assumptions": [BOUNDED_NOTE],
    },
    "C12": {
        "level": "proof", "units": ["head", "tail", "skip"], "bounded": ["chains"],
        "fallback": {"head": ["chains"], "tail": ["chains"], "skip": ["chains"]},
        "text": "Verus proves the hand-over functions: into_parts of Head/Tail/Skip returns the current view (not the internal copy), and every diff a stage emits is emittable on the view rebuilt so far (what the next stage's precondition asks for). Chains of 2 and 3 adapters with taps are bounded.",
        "note": "stand-ins assumed; chains are bounded; F6 known",
        "technique": "contract-based deductive verification (Verus) of into_parts and the emittable clauses; bounded enumeration of chains",
        "assumptions": [GLUE],
    },
    "C13": {
        "level": "exploration", "units": [], "bounded": ["hts", "filter", "sort", "chains"], "fallback": {},
        "text": "Bounded so far: on batched subscribers, after every emitted batch the rebuilt view is the adapter's view of a top-level source state; no empty batch.",
        "note": "bounded stand-in; container contracts (ops.rs) pending",
        "technique": "bounded exhaustive enumeration on the real crates (stand-in)",
        "assumptions": [BOUNDED_NOTE],
    },
    "C14": {
        "level": "exploration", "units": [], "bounded": ["sub", "hts", "filter", "sort", "chains"], "fallback": {},
        "text": "Bounded so far: flag waker checked around every single operation (source update, parameter change, source drop, parameter stream closed): a stream never becomes ready without the Pending poll's waker having fired, and never sleeps on a stale view.",
        "note": "bounded stand-in, single-threaded",
        "technique": "bounded exhaustive enumeration on the real crates (stand-in)",
        "assumptions": [BOUNDED_NOTE],
    },
    "C15": {
        "level": "proof", "units": ["head", "tail"], "bounded": ["hts"],
        "fallback": {"head": ["hts"], "tail": ["hts"]},
        "text": "Verus proves per diff variant that every prefix of the diffs handle_diff emits keeps the Head/Tail view within the limit (prefixes_bounded, proved equivalent to the for-all-prefixes statement), and that the constructors' initial values respect the bound. The glue is bounded (length checked after every single diff).",
        "note": "stand-ins assumed; " + GLUE,
        "technique": "contract-based deductive verification (Verus); bounded enumeration for the glue",
        "assumptions": [GLUE],
    },
}

NOT_APPLICABLE = {
    "C04": "quantifies over thread schedules: Kani has no threads, Verus only through its own permission types (a rewritten program, i.e. a model); no contract on the real code can express it — DESIGN.md §6/C04",
}
# properties whose check is not built yet in this round (kept out of `checks`, listed with the reason)
PENDING = {
    "C01": "contract units for state.rs / subscriber.rs not built yet in this round",
    "C02": "contract units for state.rs not built yet in this round",
    "C03": "contract units for shared.rs / unique.rs not built yet in this round",
    "C16": "async-lock units not built yet in this round",
    "C17": "vector/entry units not built yet in this round",
    "C18": "VectorDiff::map/apply unit not built yet in this round",
    "C19": "handle-count unit not built yet in this round",
    "C20": "Kani harnesses not built yet in this round",
}
