"""Which units / bounded checks decide which property; trusted-base texts reported in the evidence;
the text that goes into MANIFEST.json (tools/mkmanifest.py renders it)."""

COMMON_TRUST = [
    "Verus 0.2026.09.13 + Z3 (the verifier), rustc, the extractor (syn spans) and the declared rewrite rules of DESIGN.md §3.3",
    "Clone returns an equal value (axiom_clone_eq); machine integers are checked for overflow by Verus, lengths fit usize (axiom_len_fits)",
]

IMBL = "prelude/imbl.rs: imbl::Vector<T> behaves as Seq<T> for the methods used (len,is_empty,get,append,clear,push_*,pop_*,insert,set,remove,truncate,iter,split_at,skip,clone,new); insert/set/remove beyond the end panic (requires); truncate(n>=len) is a no-op — ASSUMED, exercised by the bounded runs on the real crate"
ITERS = "prelude/iters.rs: iterator adapters iter/rev/skip/take/cloned/map/peekable/collect/repeat as Seq operations — ASSUMED"
SMALLVEC = "prelude/smallvec.rs: SmallVec / ArrayVec are sequences; ArrayVec::push panics when full (requires) — ASSUMED"
STD = "prelude/std.rs: assume_specification for mem::replace, Option::replace, Result::unwrap_or, usize::from(bool); cmp::min stand-in — ASSUMED"

BCAST = "prelude/broadcast.rs + prelude/recv.rs: tokio::sync::broadcast — send appends to the log seen by every live receiver iff there is one; receivers get messages in FIFO order; a receiver that fell behind reports Lagged exactly once and continues with the oldest retained message; Closed is reported only after everything retained was received; a pending recv has registered the caller's waker — ASSUMED (exercised on the real tokio channel by the bounded `sub` enumeration)"
TASK = "prelude/task.rs: Waker/Context/Poll stand-ins; Waker::clone returns an equal waker — ASSUMED"
RBOX = "ReusableBoxRecvFuture (subscriber.rs:249-277 over reusable_box.rs) is a stand-in: `set` arms it with a receiver, `poll` completes per the channel contract — R-EXT; the unsafe code below it is checked by Kani under C20"
UNIT_TRUST = {
    "vector": [IMBL, ITERS, BCAST, STD, "R-LOCK: Sender::send/subscribe and broadcast_diff/subscribe take &mut self (sequential execution)", "R-PANIC: panic!(..) => { assert(state unchanged); diverge() }"],
    "subscriber": [IMBL, BCAST, TASK, RBOX, STD, "R-PIN: self: Pin<&mut Self> => &mut self", "R-BREAKVAL: loop-with-break-value desugared", "vstd specs for Vec, vec::IntoIter (remaining() is prophetic), Option, mem::replace, unreachable_unchecked (requires false)"],
    "transaction": [IMBL, BCAST, STD, "R-MUTSELF: `fn commit(mut self)` => `fn commit(self) { let mut this = self; … }` (Verus has no `mut self`)", "R-PANIC on insert/set/remove/entry", "R-TRAIT: Drop::drop / Deref::deref of the entry types verified as inherent methods (a trait method cannot carry a precondition)", "vstd specs for Vec (push, clear, is_empty), mem::take (assume_specification)"],
    "entry": [IMBL, BCAST, STD, "R-TRAIT: Drop::drop / Deref::deref verified as inherent methods", "ObservableVector::set/remove appear with the clauses proved in unit `vector`"],
    "traits": ["R-TRAIT: VectorObserver as a Verus trait with the abstract value `parts()`; the provided methods of VectorObserverExt verified as associated functions over any observer (receiver => parameter)", "the adapters' constructors are uninterpreted functions of their arguments here (their behaviour is decided in units head/tail/skip and by the bounded checks)"],
    "ops": [ITERS, SMALLVEC, "prelude/vecseq.rs: Vec stand-in (into_iter, is_empty, vec![x]) and SeqIt::flat_map / filter_map: the closure is applied to every item in order, results concatenated — ASSUMED", "R-TRAIT: `impl VectorDiffContainerOps<T> for X` methods verified as associated functions (receiver => parameter `this`), associated types replaced by the impl's own `type … = …;` lines", "R-WILD: `_` fn parameters named"],
    "shared_async": ["prelude/arc.rs (Arc/Weak stand-ins, R-LOCK)", "prelude/rwlock_handles_tokio.rs: tokio::sync::RwLock under R-AWAIT + R-LOCK (lock free when requested) — ASSUMED", "state.rs functions with the contracts proved in unit `state` (//@viewof)", "contract text taken from unit `shared` (//@ like)", "R-AWAIT: `async fn` => `fn`, `.await` dropped"],
    "unique_async": ["readlock_tokio::Shared stand-in (as in unit unique) — ASSUMED", "state.rs functions with the contracts proved in unit `state` (//@viewof)", "contract text taken from unit `unique` (//@ like)", "R-AWAIT"],
    "esub_async": [TASK, "prelude/state_view.rs (caller view of state.rs, trusted to match unit state)", "ReusableBoxFuture / lock_owned / OwnedSharedReadGuard stand-ins: a completed acquisition hands out a guard on the protected state, a pending poll keeps the future armed and has registered the waker with the lock, `set` re-arms — ASSUMED (tokio-util, readlock-tokio)", "R-AWAIT"],
    "esub": [TASK, "prelude/state_view.rs: caller view of state.rs (&self receivers): the contracts proved in unit `state` with the final(self) clauses dropped and `registered(state, waker)` for the waker-list clause; readlock::SharedReadLock/SharedReadGuard transparent (cur()/target()) — TRUSTED TO MATCH unit state", "R-INST: L = SyncLock"],
    "shared": ["prelude/arc.rs: Arc/Weak as counted handles with DerefMut (R-LOCK: sequential execution; aliasing between handles not modelled) — ASSUMED", "prelude/rwlock_handles.rs: RwLock::read/write hand out &mut to the protected state (R-LOCK)", "state.rs functions appear with exactly the contracts proved in unit `state` (//@viewof)", "R-LOCK: &self receivers of the setters/getters => &mut self; R-INST: L = SyncLock; R-TRAIT: Drop as inherent method", "try_read/try_write not under contract; SUBSCRIBER_REFS = 1 copied by hand from lock.rs"],
    "unique": ["readlock::Shared stand-in (owns the state, counted read locks, DerefMut under R-LOCK) — ASSUMED", "state.rs functions with the contracts proved in unit `state` (//@viewof)", "R-LOCK: `this: &Self` of subscribe => `&mut Self`; R-INST: L = SyncLock; R-TRAIT: Drop as inherent method", "into_shared (ptr::read + mem::forget) is outside Verus: Kani + bounded"],
    "state": [TASK, "prelude/wakerlist.rs: the waker list is a sequence; drain(..) and mem::take empty it — ASSUMED", "prelude/rwlock_seq.rs (R-LOCK): std::sync::RwLock in a sequential execution: read() gives &M, write()/get_mut() give &mut M; poll_update/close take &mut self — everything about concurrent access is NOT decided", "PartialEq::ne and state::hash are deterministic functions of the values (axiom_ne, spec_hash); state::hash and state::wake are R-EXT (trusted; wake's effect on the wakers is covered by the bounded check only)", "the version counter stays below u64::MAX (requires on notifying setters)"],
    "head": [IMBL, ITERS, SMALLVEC, STD, "R-INST: S::Item instantiated to VectorDiff<T> (single-diff container) in update_limit/constructors"],
    "tail": [IMBL, ITERS, SMALLVEC, STD, "R-INST: element type instantiated to T"],
    "skip": [IMBL, ITERS, SMALLVEC, STD, "R-INST: element type instantiated to T"],
}

GLUE = "the adapters' poll_next glue (closure capturing &mut: outside Verus) is decided only by the bounded enumeration, labelled bounded and not counted as proved"
BOUNDED_NOTE = "bounded part: exhaustive small-scope enumeration on the real crates (scope printed in the evidence); it is a bounded stand-in, never counted in obligations/discharged"

def P(level, units, bounded, text, note, technique, assumptions=None, fallback=None):
    if fallback is None:
        fallback = {u: list(bounded) for u in units}
    return {"level": level, "units": units, "bounded": bounded, "fallback": fallback, "text": text, "note": note, "technique": technique, "assumptions": assumptions or []}

VERUS = "contract-based deductive verification (Verus/Z3) of the real functions extracted by span on every run"
BND = "bounded exhaustive enumeration on the real crates as stand-in for what Verus cannot take"

PROPS = {
    "C01": P("proof", ["state", "esub", "shared", "unique"], ["obs"],
        "Verus discharges the contracts of every function of state.rs: poll_update is ready exactly when version==0 or observed<version, marks the value observed, otherwise stays pending and changes nothing else; set/update always bump the version by one and store the value; set_if_not_eq / set_if_hash_not_eq store+notify+return Some(previous) exactly when ne / hashes differ and otherwise leave the whole state identical; update_if bumps exactly when the closure returned true.",
        "sequential (R-LOCK); the sync handle layer is under contract too: Subscriber::{new,next_now,next_ref_now,get,read,poll_next_ref,reset,clone,clone_reset} and ObservableReadGuard over a caller view of state.rs, SharedObservable / ObservableWriteGuard / Observable setters, getters and subscribe* over the contracts proved for state.rs (Arc/RwLock/readlock stand-ins); PartialEq::ne / hash deterministic; version < u64::MAX; Stream::poll_next, Next::poll and opt_guard_to_owned too; try_read/try_write and next_ref() (poll_fn over a closure capturing &mut self) are not under contract",
        VERUS + "; " + BND, ["try_read/try_write and Subscriber::next_ref are bounded only"]),
    "C02": P("proof", ["state", "esub"], ["obs"],
        "Sequential obligations only: poll_update returning Pending has pushed a clone of the caller's waker onto the waker list (and only then); every notifying setter and close leave the waker list empty, and the list stand-in can only be emptied through drain(..)/mem::take whose results the code hands to wake().",
        "NO thread schedules (R-LOCK erases them); `wake` itself is R-EXT (its loop over the drained wakers is not verified)",
        VERUS, ["thread interleavings are not decided", "state::wake is trusted (R-EXT)"]),
    "C03": P("proof", ["state", "esub", "shared", "unique"], ["obs"],
        "Sequential: poll_update yields None iff version==0; close sets version 0; notifying setters keep an open state open (version>=1 stays >=1).",
        "sequential; also proved: Drop of the unique Observable closes unconditionally, Drop of a SharedObservable closes iff the strong count of ITS clone counter is 1 and otherwise leaves the state untouched, upgrade succeeds iff both the state and the counter allocation are alive, Subscriber::poll_next_ref yields None iff closed; lemma over the abstract handle heap: closed <=> no owner. into_shared is Kani's (C20); concurrent last drops not decided",
        VERUS + "; " + BND, ["concurrent last drops are not decided", "into_shared (ptr::read) is checked by Kani and the bounded histories, not by Verus"]),
    "C05": P("proof", ["vector", "subscriber", "transaction", "entry"], ["sub"],
        "Verus proves: each of the eleven mutators changes the contents like a plain vector and, iff a receiver exists, appends exactly one message carrying exactly the matching diff (emittable on the old contents, producing the new contents) and the new state; documented no-ops change nothing; subscribe snapshots values and a receiver positioned at the end of the log. Both subscriber streams deliver the queued diffs in FIFO order (unbatched: head of the backlog, rest stays queued; batched: the concatenation of all queued messages).",
        "channel FIFO is tokio's (assumed, exercised by the bounded runs); transaction/entry units pending; R-LOCK sequential",
        VERUS + "; " + BND, [BOUNDED_NOTE]),
    "C06": P("proof", ["subscriber", "vector", "transaction"], ["sub"],
        "Verus proves (relative to the assumed channel contract): a lagged receiver gets exactly Reset{state of the newest retained message} and its queue is drained (handle_lag loop invariant), the `unreachable!` after a lag is unreachable, every message carries the state after it (broadcast_diff), each batched item leaves the queue empty.",
        "'Reset only if more than capacity updates were pending' and retention are tokio's behaviour (assumed)",
        VERUS + "; " + BND, [BOUNDED_NOTE]),
    "C07": P("proof", ["transaction", "subscriber"], ["sub"],
        "Verus proves the invariant tx_wf over every function of transaction.rs: operations touch only the working copy (the wrapped ObservableVector, contents and log, is framed unchanged), the batch always takes the pre-transaction contents to the working contents (all diffs emittable), clear leaves exactly [Clear], rollback restores contents and empties the batch, drop does nothing, commit stores the working contents and appends exactly one Many(batch) message with that state iff the batch is non-empty. The batched stream yields whole messages and never an empty batch.",
        "channel behaviour is tokio's; R-MUTSELF rewrite on commit; sequential",
        VERUS + "; " + BND, [BOUNDED_NOTE]),
    "C08": P("proof", ["subscriber", "transaction"], ["sub"],
        "Verus proves: both streams return None only if the channel is closed, the receiver did not lag and nothing is queued; closed with a non-empty queue still delivers; handle_lag on a closed channel returns the final state (the repaired F1).",
        "wake-on-drop is tokio's Sender::drop (bounded check with a flag waker)",
        VERUS + "; " + BND, [BOUNDED_NOTE]),
    "C09": P("proof", ["head", "tail", "skip", "ops"], ["hts"],
        "Verus discharges, for all element types, lengths, limits and indices, one obligation per (function, diff variant): handle_diff of Head/Tail/Skip turns an emittable source diff into diffs that are applicable to the old view and rebuild exactly the new view; update_limit/update_count rebuild the view under the new parameter; constructors return the initial view. The poll_next glue is bounded.",
        "prelude stand-ins for imbl/SmallVec/ArrayVec/iterators are assumed contracts; " + GLUE + "; F6 (tail limit decrease from beyond the length) is a known finding",
        VERUS + "; " + BND + " (poll_next glue)", [GLUE]),
    "C10": P("exploration", [], ["filter"],
        "Bounded only (filter.rs mutates its index table from inside closures, which Verus rejects): all 8 pass/fail tables x all short histories x both flavours; rebuilt view == filter_map(source) at every Pending, every diff applicable, stream ends with the source.",
        "bounded stand-in, exhaustive in the stated scope; nothing is counted as proved",
        BND + " (Verus cannot take filter.rs: closures capturing &mut)", [BOUNDED_NOTE]),
    "C11": P("exploration", [], ["sort"],
        "Bounded only (sort.rs: closures capturing &mut, binary_search_by with caller comparator): three flavours x key tables with ties x all short histories; rebuilt view is a permutation of the source ordered by the comparison at every Pending.",
        "bounded stand-in, exhaustive in the stated scope; F4 (Truncate arm) is a known finding pinned by existing tests",
        BND + " (Verus cannot take sort.rs)", [BOUNDED_NOTE]),
    "C12": P("proof", ["head", "tail", "skip", "subscriber", "traits"], ["chains"],
        "Verus proves the hand-over functions: into_parts of Head/Tail/Skip returns the current view (not the internal copy), VectorSubscriber::into_values_and_*stream return snapshot + stream, every diff a stage emits is emittable on the view rebuilt so far (what the next stage's precondition asks for), the (values, stream) pair hands itself over unchanged, and each of the 14 VectorObserverExt methods passes exactly what into_parts() returned, in order, to the right constructor. Chains of 2 and 3 adapters with taps are bounded.",
        "stand-ins assumed; chains are bounded; F6 known",
        VERUS + " (hand-over functions); " + BND + " (chains)", [GLUE]),
    "C13": P("proof", ["ops", "subscriber", "tail", "skip"], ["hts", "filter", "sort", "chains"],
        "Verus proves both containers of ops.rs. Batched (`Vec<VectorDiff<T>>`): filter_map and push_into_{head,tail,skip,sort}_buf return None iff the mapped result is empty and otherwise ONE Vec holding the mapped diffs of every diff of this input batch, in order (flat_map / filter_map stand-ins, closure via call_ensures); extend_*_buf likewise; pop_from_*_buf always None, so a batch is never split. Single-diff (`VectorDiff<T>`): the returned diff followed by the buffer is the old buffer followed by the mapped diffs (first in, first out). Also: the batched subscriber stream yields whole messages and never an empty batch; update_limit/update_count of Tail/Skip never return an empty batch. The adapters' poll_next glue is bounded: after every emitted batch the rebuilt view is the adapter's view of a top-level source state.",
        "iterator adapters (flat_map, filter_map, rev, collect, insert_many) are assumed contracts; R-TRAIT: the trait methods are verified as associated functions with the receiver as a parameter; adapters bounded",
        VERUS + " (ops.rs containers, batched subscriber, update_*); " + BND, [BOUNDED_NOTE]),
    "C14": P("proof", ["subscriber"], ["sub", "hts", "filter", "sort", "chains"],
        "Verus proves for both subscriber streams: every return path re-arms the receive future (struct invariant `wf`), and Pending is returned only as the result of polling the armed future with the caller's context, which (channel contract) registered that waker. Adapters are bounded: flag waker checked around every single operation.",
        "waker registration by a pending recv is tokio's (assumed); adapters bounded, single-threaded",
        VERUS + " (subscriber streams); " + BND + " (adapters)", [BOUNDED_NOTE]),
    "C15": P("proof", ["head", "tail", "ops"], ["hts"],
        "Verus proves per diff variant that every prefix of the diffs handle_diff emits keeps the Head/Tail view within the limit (prefixes_bounded, proved equivalent to the for-all-prefixes statement), and that the constructors' initial values respect the bound. The glue is bounded (length checked after every single diff).",
        "stand-ins assumed; " + GLUE,
        VERUS + "; " + BND + " (glue)", [GLUE]),
    "C16": P("proof", ["shared_async", "unique_async", "esub_async"], ["obs-async", "obs-held"],
        "Under await-erasure (R-AWAIT: histories in which the lock is free when requested) Verus proves that every async-lock method of SharedObservable and Observable satisfies THE SAME contract text as its sync twin (`//@ like`: the clauses are taken from the sync function's block, not re-typed), i.e. same results for the same calls; for the async subscriber: its reusable lock-acquisition future is re-armed on every path (struct invariant), next_now/next_ref_now/get/read behave as the sync ones, and poll_update/poll_next_nopin apply the same readiness rule to the state found under the lock, returning Pending only after the caller's waker was registered (with the state or with the lock). Lock waiting (writer woken on release, operations queued behind a guard taking effect atomically in queue order, subscriber polled under a write guard) and next()/next_ref() (poll_fn over a closure capturing &mut self) are bounded: obs-held, obs-async.",
        "R-AWAIT erases lock waiting: tokio's fairness/wake-on-release are assumed and exercised by the bounded held-guard scenarios; ReusableBoxFuture/lock_owned stand-ins are assumed contracts",
        VERUS + " (same contract text as the sync flavour, after await-erasure); " + BND + " (lock waiting)", [BOUNDED_NOTE, "next()/next_ref() of the async subscriber are bounded only"]),
    "C19": P("proof", ["shared", "unique"], ["obs-counts", "obs-async-counts"],
        "Verus proves over Arc/Weak handle stand-ins which handles every operation creates (clone: one on the state and one on the clone counter; subscribe*: one on the state only; downgrade/upgrade/from_inner accordingly) and that the count functions return strong(counter), (strong(state) - strong(counter)) / refs-per-subscriber, their sum and weak(state); the lemma over the abstract handle heap (count = number of live handles) carries this through every sequential history: observable_count = #clones, subscriber_count = #subscribers, strong_count = their sum. The async flavour (two references per subscriber) and into_shared are bounded.",
        "Arc's contract (strong count = live handles) and the handle abstraction are assumed; the per-flavour constant SUBSCRIBER_REFS is taken from lock.rs by hand (sync = 1); async flavour bounded only",
        VERUS + " + lemma over the abstract handle heap; " + BND, [BOUNDED_NOTE]),
    "C20": dict(P("other", ["subscriber"], ["drops", "obs-counts"],
        "Mixed. (1) Verus proves the `unsafe { unreachable_unchecked() }` arm of VectorSubscriberStream::poll_next unreachable (vstd gives it `requires false`). (2) Kani (CBMC) checks the in-place replacement in reusable_box.rs on loop-free harnesses with drop-counting futures and symbolic payloads: same-layout reuse, different-layout reallocation, rejected try_set; pointer, double-free and dead-object checks plus 'each future dropped exactly once, none early' — complete for the instantiated future types. (3) thorough: Kani on Observable::into_shared (ptr::read + mem::forget) with #[kani::unwind(3)] and unwinding assertions on; Miri (tree borrows) on a fixed set of histories through every unsafe block. (4) A token scan compares every unsafe-related site with the audited list; a new site makes the property undecided. (5) Bounded drop accounting with an instrumented item type: nothing handed to the library stays alive after everything is dropped, including streams abandoned in the middle of a batch. Everything else is safe Rust (ownership discipline).",
        "only the Verus obligation is counted as discharged; Kani results hold for the instantiated types; Miri and the drop accounting are bounded; 'never twice' for safe code rests on Rust's ownership discipline",
        "Verus (one obligation) + Kani/CBMC on the unsafe blocks + Miri-run and native bounded drop accounting + token scan"),
        extras=["unsafe-scan", "kani-reusable-box", "kani-into-shared", "miri"]),
    "C17": P("proof", ["vector", "transaction", "entry"], ["mutators"],
        "Verus proves for every ObservableVector and transaction mutator the plain-vector result and return value, (R-PANIC) that at every panic site (insert/set/remove/entry out of range) nothing has been changed, batched or sent, and that a normal return implies the index was in range; for entry.rs and the transaction entries: next offers the element at the cursor iff in range, set replaces it, remove removes it WITHOUT advancing the borrowed cursor, drop of a borrowed entry advances it by one; and the lemma over that cursor machine: whatever the per-element decisions (keep/set/remove/set-then-remove/stop), every original element is offered exactly once in index order and an early exit leaves the rest untouched.",
        "Rust runs Drop exactly once for an entry not consumed by remove (R-TRAIT: drop/deref are verified as inherent methods); for_each's loop over a caller closure is not under contract",
        VERUS, ["for_each (while-let over a caller-supplied FnMut) is not under contract", "implicit drops are Rust's"]),
    "C18": P("proof", ["vector"], ["diffmap"],
        "Verus proves apply(d, vec) performs the spec change for every variant whenever insert/set/remove are in range (no other stand-in precondition, i.e. no other panic, is reachable), map rebuilds each variant with the closure applied to every contained value (vector_map verified over the iterator stand-ins), and the lemma: for a pure mapping, apply(map(d), map(s)) == map(apply(d, s)); identity mapping gives an equal diff.",
        "iterator adapters into_iter/map/collect are assumed contracts; imbl panics are the stand-in's preconditions",
        VERUS + "; " + BND, []),
}

NOT_APPLICABLE = {
    "C04": "quantifies over thread schedules: Kani has no threads, Verus only through its own permission types (a rewritten program, i.e. a model); no contract on the real code can express it — DESIGN.md §6/C04",
}
# properties whose check is not built yet in this round (kept out of `checks`, listed with the reason)
PENDING = {
}
