
// ---- appended by /verif (C03, C20): Kani harness for Observable::into_shared (ptr::read + mem::forget).
// #[kani::unwind(3)] is needed for the compare-exchange loop inside std::sync::RwLock; unwinding assertions stay on.
#[cfg(kani)]
mod verif_kani {
    use super::*;
    static mut DROPS: u8 = 0;
    struct V(u8);
    impl Drop for V {
        fn drop(&mut self) {
            unsafe { DROPS += 1 };
        }
    }
    #[kani::proof]
    #[kani::unwind(3)]
    fn into_shared_keeps_state_and_drops_value_once() {
        let a: u8 = kani::any();
        let ob = Observable::new(V(a));
        let sub = Observable::subscribe(&ob);
        assert!(Observable::subscriber_count(&ob) == 1);
        let shared = Observable::into_shared(ob);
        // the conversion neither drops the value nor closes the state
        assert!(unsafe { DROPS } == 0);
        assert!(shared.observable_count() == 1);
        assert!(shared.subscriber_count() == 1);
        assert!(shared.read().0 == a);
        assert!(sub.read().0 == a);
        drop(shared);
        // the subscriber keeps the state (and the value) alive
        assert!(unsafe { DROPS } == 0);
        assert!(sub.read().0 == a);
        drop(sub);
        assert!(unsafe { DROPS } == 1);
    }
}
