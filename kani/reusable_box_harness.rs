
// ---- appended by /verif (C20): Kani harness for the in-place replacement of the boxed future.
// Loop-free; complete for the instantiated future types (same layout => reuse, different layout => reallocate).
#[cfg(kani)]
mod verif_kani {
    use super::*;
    use std::task::{RawWaker, RawWakerVTable, Waker};

    static mut DROPS: [u8; 3] = [0; 3];

    struct Fut<const N: usize> {
        payload: [u8; N],
        id: usize,
        ready: bool,
    }
    impl<const N: usize> Future for Fut<N> {
        type Output = u8;
        fn poll(self: Pin<&mut Self>, _cx: &mut Context<'_>) -> Poll<u8> {
            if self.ready {
                Poll::Ready(self.payload[0])
            } else {
                Poll::Pending
            }
        }
    }
    impl<const N: usize> Drop for Fut<N> {
        fn drop(&mut self) {
            unsafe { DROPS[self.id] += 1 };
        }
    }
    fn noop_raw() -> RawWaker {
        fn no(_: *const ()) {}
        fn cl(_: *const ()) -> RawWaker {
            noop_raw()
        }
        static VT: RawWakerVTable = RawWakerVTable::new(cl, no, no, no);
        RawWaker::new(std::ptr::null(), &VT)
    }

    #[kani::proof]
    fn reusable_box_set_reuse_and_realloc() {
        let w = unsafe { Waker::from_raw(noop_raw()) };
        let mut cx = Context::from_waker(&w);
        let a: u8 = kani::any();
        let b: u8 = kani::any();
        let c: u8 = kani::any();
        let r1: bool = kani::any();
        let r2: bool = kani::any();
        let mut bx = ReusableBoxFuture::new(Fut::<8> { payload: [a; 8], id: 0, ready: r1 });
        let p1 = bx.poll(&mut cx);
        assert!(p1 == if r1 { Poll::Ready(a) } else { Poll::Pending });
        assert!(unsafe { DROPS[0] } == 0);
        // same layout: the allocation is reused, the old future dropped exactly once, the new one not yet
        bx.set(Fut::<8> { payload: [b; 8], id: 1, ready: r2 });
        assert!(unsafe { DROPS[0] } == 1 && unsafe { DROPS[1] } == 0);
        let p2 = bx.poll(&mut cx);
        assert!(p2 == if r2 { Poll::Ready(b) } else { Poll::Pending });
        // different layout: try_set refuses, set reallocates; again exactly one drop of the replaced future
        bx.set(Fut::<24> { payload: [c; 24], id: 2, ready: true });
        assert!(unsafe { DROPS[0] } == 1 && unsafe { DROPS[1] } == 1 && unsafe { DROPS[2] } == 0);
        let p3 = bx.poll(&mut cx);
        assert!(p3 == Poll::Ready(c));
        drop(bx);
        assert!(unsafe { DROPS[0] } == 1 && unsafe { DROPS[1] } == 1 && unsafe { DROPS[2] } == 1);
    }

    #[kani::proof]
    fn reusable_box_try_set_layout_mismatch_returns_future() {
        let a: u8 = kani::any();
        let mut bx = ReusableBoxFuture::new(Fut::<8> { payload: [a; 8], id: 0, ready: false });
        match bx.try_set(Fut::<24> { payload: [a; 24], id: 1, ready: false }) {
            Ok(()) => assert!(false),
            Err(f) => {
                // the rejected future comes back untouched; the replaced one is gone (the crate-private try_set is only
                // called from `set`, which installs the new future right after) — dropped exactly once, not twice
                assert!(f.id == 1);
                assert!(unsafe { DROPS[0] } == 1 && unsafe { DROPS[1] } == 0);
            }
        }
    }
}
